"""C04 -- readers and loose writers are never disturbed by a concurrent packer (DESIGN 5, C04).

Decides the code-side premises of the protocol's safety argument (P-w, P-p1..3, P-r1..4, P-l), not the interleavings.
"""
from __future__ import annotations

import ast

from ..kinds import alts
from ..loader import norm, walk_local
from ..report import Check
from ..solver import Machine, Violation
from ..solver import run as solve
from .c05 import CleanMachine
from .common import Summaries, areas, in_area, origin, root_name, write_policy
from .funnel import FUNNEL, FunnelMachine, funnel_policy, yield_meta_type
from .machines import path_operand, LooseMachine, PackMachine, explore, report_violations


class LazyOpenMachine(Machine):
    """P-l: LazyLooseStream.open_stream returns normally only with a successfully opened stream."""
    edge_kinds = ('n', 'e')

    def __init__(self, ctx, rule):
        self.E, self.K = ctx.effects, ctx.kinds
        self.rule = rule
        self.opens = 0
        self.loosens = 0

    def initial(self, g):
        return [('closed',)]

    def edge_state(self, edge, st, node, g):
        c = edge.cond
        if c is not None and 'closed' in norm(c[0]):
            neg = isinstance(c[0], ast.UnaryOp) and isinstance(c[0].op, ast.Not)
            already_open = (c[2] and neg) or (not c[2] and not neg)
            if already_open:
                return ('open',)
        if edge.kind == 'e' and node.kind == 'call' and any(e[0] == 'OPEN' for e in self.E.of(node)):
            return ('closed',)
        return st

    def transfer(self, node, st, g):
        out = st
        for e in self.E.of(node):
            if e[0] == 'OPEN' and 'r' in (e[2] or 'r'):
                self.opens += 1
                out = ('open',)
        if node.kind in ('call', 'enter') and node.callee is not None and node.callee.kind == 'internal' and node.callee.target.name == 'loosen_object':
            self.loosens += 1
        return [out]

    def at_exit(self, node, st, g):
        if node is g.exit and st[0] != 'open':
            return [Violation(self.rule, node, st, 'open_stream can return normally without an opened stream (a FileNotFoundError of the re-loosened '
                              'file is not retried through loosen_object)')]
        return []


def run(ctx, host=None):
    chk = host.sub('C04') if host is not None else Check('C04', ctx)
    prog, K, E = ctx.prog, ctx.kinds, ctx.effects
    Pw = chk.rule('C04.Pw', 'writer: bytes go to the sandbox, flush+close precede one atomic rename/replace into loose/', 1)
    Pw2 = chk.rule('C04.Pw2', 'nobody removes directories below loose/ or the sandbox (writers rely on them between mkdir and rename)', 1)
    Pw3 = chk.rule('C04.Pw3', 'writer tolerates a destination that disappears while it is being checked', 1)
    Pp1 = chk.rule('C04.Pp', 'packer: pack bytes flushed/closed before the row is committed; loose unlinked only after the commit', 1)
    Pp3 = chk.rule('C04.Pp3', 'clean_storage decides from a snapshot begun after a session refresh', 1)
    Pr3 = chk.rule('C04.Pr3', 'reader: MISSING only after loose probe -> session refresh -> index query (both stream modes)', 2)
    Pr2 = chk.rule('C04.Pr2', 'reader: FileNotFoundError of the loose probe is caught and the key routed to the retry set', 1)
    Pr4 = chk.rule('C04.Pr4', 'reader: loose size taken from the open descriptor (fstat), no second path lookup in stream mode', 1)
    Pl = chk.rule('C04.Pl', 'LazyLooseStream.open_stream retries through loosen_object and never returns unopened', 1)
    pol = write_policy(depth=5)
    S = Summaries(ctx)

    # P-w
    q = 'container:Container.add_streamed_object'
    found, m = explore(ctx, chk, q, {}, lambda g, c: LooseMachine(ctx, g, require_durable=False, rule_close='C04.Pw'), pol, 'wp5')
    report_violations(chk, q, found)
    chk.require(m.publishes >= 1, 'no publish site in the loose write path')
    if not found:
        chk.ok(Pw, q, 'ObjectWriter inlined', detail=f'{m.publishes} publish site(s)')

    # P-w2: directory removal ownership
    nrm = 0
    for f in prog.all_functions():
        for n, cal, effs in S.calls(f):
            for e in effs:
                if e[0] in ('RMDIR', 'RMTREE'):
                    nrm += 1
                    ar = areas(K, e[1])
                    if ar & {'loose', 'sandbox', 'packs', 'duplicates'}:
                        chk.bad(Pw2, f.qualname, norm(n), f'{e[0]} of a directory in {sorted(ar)}: a concurrent writer that already created/checked its '
                                'destination folder would fail at the rename', where=f'{f.module.relpath}:{n.lineno}')
                    elif ar == {'root'} and f.qualname == 'container:Container.init_container':
                        pass
                    elif not ar <= {'foreign', 'unknown', 'param'} and f.qualname != 'container:Container.init_container':
                        chk.bad(Pw2, f.qualname, norm(n), f'{e[0]} inside the container ({sorted(ar)}) outside init_container(clear=True)',
                                where=f'{f.module.relpath}:{n.lineno}')
    chk.require(nrm >= 1, 'expected at least the rmtree of init_container(clear=True)')
    if not [f for f in chk.findings if f.rule == Pw2]:
        chk.ok(Pw2, '<package>', f'{nrm} directory-removal site(s)', detail='only init_container(clear) removes the container tree')

    # P-w3: _compute_hash_for_file returns None on FileNotFoundError, and ObjectWriter treats None as "gone"
    ch = prog.fn('utils:_compute_hash_for_file')
    ok3 = False
    for n in walk_local(ch.node):
        if isinstance(n, ast.Try):
            for h in n.handlers:
                if h.type is not None and 'FileNotFoundError' in norm(h.type):
                    if any(isinstance(s, ast.Return) and isinstance(s.value, ast.Constant) and s.value.value is None for s in h.body):
                        ok3 = True
    ex = prog.fn('utils:ObjectWriter.__exit__')
    # names of __exit__ that hold the result of the checksum helper (by def-use, not by name)
    frx = K.top_frame(ex)
    vnames = set()
    for n in walk_local(ex.node):
        if isinstance(n, ast.Assign) and isinstance(n.targets[0], ast.Name) and isinstance(n.value, ast.Call):
            cal = K.resolve_call(n.value, frx)
            if cal is not None and cal.kind == 'internal' and cal.target is ch:
                vnames.add(n.targets[0].id)
    none_handled = any(isinstance(n, ast.Compare) and isinstance(n.left, ast.Name) and n.left.id in vnames and isinstance(n.ops[0], ast.Is)
                       and isinstance(n.comparators[0], ast.Constant) and n.comparators[0].value is None for n in walk_local(ex.node))
    if ok3 and none_handled:
        chk.ok(Pw3, ch.qualname, 'FileNotFoundError -> None -> writer returns', detail='concurrent disappearance of the destination is tolerated')
    else:
        chk.bad(Pw3, ch.qualname if not ok3 else ex.qualname, 'FileNotFoundError -> None' if not ok3 else 'existing_checksum is None',
                'the writer no longer tolerates a destination that a concurrent packer/cleaner removes while its checksum is being computed',
                where=f'{ch.module.relpath}:{ch.lineno}')

    # P-p1/2
    for q in ('container:Container.pack_all_loose',):
        found, m = explore(ctx, chk, q, {}, lambda g, c: PackMachine(ctx, g, require_durable=False, rule_flush='C04.Pp', rule_unlink='C04.Pp'), pol, 'wp5')
        report_violations(chk, q, found)
        chk.require(m.sites.insert_nodes and m.sites.tracked_unlinks, f'{q}: insert / tracked unlink sites not found')
        if not found:
            chk.ok(Pp1, q, 'PackMachine', detail='a reader that sees the row finds complete bytes; a loose file disappears only after its row is committed')

    # P-p3 (same machine as C05.R3)
    q = 'container:Container.clean_storage'
    g = ctx.icfg(q, {}, pol, key='wp5')
    unlinks, feeding = clean_sites(ctx, chk, g)
    m = CleanMachine(ctx, g, feeding, unlinks, rule='C04.Pp3')
    viols, st = solve(g, m)
    chk.crash_points += st['pairs']
    chk.specialisations += 1
    for v in viols:
        chk.bad(Pp3, q, v.node.text(120), v.msg, where=v.node.where, witness=v.witness)
    if not viols:
        chk.ok(Pp3, q, f'{len(unlinks)} unlink / {len(feeding)} feeding query site(s)', detail='queries run after the refresh')

    # P-r3 / P-r4 on the funnel, both stream modes
    fp = funnel_policy()
    fn = prog.fn(FUNNEL)
    for ws in (True, False):
        for sk in (True, False):
            g = ctx.icfg(FUNNEL, {'with_streams': ws, 'skip_if_missing': sk}, fp, key='funnel')
            m = FunnelMachine(ctx, g, 'C04.Pr3')
            viols, st = solve(g, m)
            chk.crash_points += st['pairs']
            chk.specialisations += 1
            chk.require(m.probe_sites, f'funnel(with_streams={ws}): no loose probe (open/stat of a loose path) found')
            if not sk:
                chk.require(m.missing_sites, f'funnel(with_streams={ws}, skip_if_missing=False): no MISSING yield found')
            for v in viols:
                chk.bad(Pr3, FUNNEL, v.node.text(100), v.msg + f' [with_streams={ws}, skip_if_missing={sk}]', where=v.node.where, witness=v.witness)
            if not viols and not sk:
                chk.ok(Pr3, FUNNEL, f'with_streams={ws}: {len(m.missing_sites)} MISSING yield(s), {len(m.probe_sites)} probe(s)',
                       detail='probe -> refresh -> query precedes every MISSING answer')
            if ws:
                if m.loose_stat_sites and sk:
                    for n in m.loose_stat_sites:
                        chk.bad(Pr4, FUNNEL, n.text(100), 'in stream mode the loose object is looked up by path a second time (stat/exists): if the packer '
                                'removes the file between open and stat the read fails although the handle is valid', where=n.where)
                elif sk:
                    fst = [n for n in g.nodes if n.id in g.reachable() and any(e[0] == 'FSTAT' for e in E.of(n))]
                    chk.require(fst, 'funnel stream mode: no fstat of the open loose handle found')
                    chk.ok(Pr4, FUNNEL, fst[0].text(100), detail='size from os.fstat(handle.fileno())')

    # P-r2: handler routing (AST)
    nprobe = 0
    for n in walk_local(fn.node):
        if not isinstance(n, ast.Try):
            continue
        body_eff = S.effects_of_stmts(n.body, fn, depth=0)
        if not any(e[0] in ('OPEN', 'STAT') and 'loose' in e[1] for e in body_eff):
            continue
        # the loop variable of the enclosing for
        loop = n
        while loop is not None and not isinstance(loop, ast.For):
            loop = getattr(loop, '_parent', None)
        chk.require(loop is not None and isinstance(loop.target, ast.Name), 'loose probe is not inside a `for key in ...` loop')
        key = loop.target.id
        routed = None
        for h in n.handlers:
            ts = norm(h.type) if h.type is not None else ''
            if 'FileNotFoundError' in ts or ts in ('OSError', '(OSError,)'):
                for s in h.body:
                    for c in ast.walk(s):
                        if isinstance(c, ast.Call) and isinstance(c.func, ast.Attribute) and c.func.attr in ('add', 'append') \
                                and c.args and isinstance(c.args[0], ast.Name) and c.args[0].id == key and isinstance(c.func.value, ast.Name):
                            routed = c.func.value.id
        for branch_calls in [c for c in ast.walk(n) if isinstance(c, ast.Call)]:
            pass
        probes = [c for st_ in n.body for c in ast.walk(st_) if isinstance(c, ast.Call)]
        nprobe += 1
        if routed is None:
            chk.bad(Pr2, FUNNEL, f'try@{norm(n.body[0])[:70]}', 'FileNotFoundError raised by the loose probe is not caught and routed to a retry set: '
                    'a key whose loose file was just removed by the packer would be dropped or the read would fail', where=f'{fn.module.relpath}:{n.lineno}')
            continue
        # the retry set must gate the refresh and feed the second lookup and the MISSING yields
        uses_ok = set()
        for c in walk_local(fn.node):
            if isinstance(c, ast.If) and isinstance(c.test, ast.Name) and c.test.id == routed and c.lineno > n.lineno:
                if any(isinstance(x, ast.Call) and 'close_operation_session' in norm(x.func) or (isinstance(x, ast.Call) and norm(x.func).endswith('.close')) for x in ast.walk(c)):
                    uses_ok.add('gates-refresh')
                for x in ast.walk(c):
                    if isinstance(x, ast.Call) and isinstance(x.func, ast.Attribute) and x.func.attr == 'in_':
                        for o in origin(K, x.args[0], K.top_frame(fn)):
                            r = root_name(o)
                            if r and r[0] == 'name' and r[2] == routed:
                                uses_ok.add('feeds-IN-query')
                    if isinstance(x, ast.Call) and norm(x.func) == 'sorted' and x.args and isinstance(x.args[0], ast.Name) and x.args[0].id == routed:
                        uses_ok.add('feeds-sorted-scan')
        need = {'gates-refresh', 'feeds-IN-query', 'feeds-sorted-scan'}
        if need <= uses_ok:
            chk.ok(Pr2, FUNNEL, f'retry set `{routed}`', detail='caught FileNotFoundError -> retry set -> gates the refresh and feeds both lookup strategies')
            chk.ok(Pr2, FUNNEL, f'handler at line {n.lineno}', detail='both with_streams branches share this try', nontrivial=False)
        else:
            chk.bad(Pr2, FUNNEL, f'retry set `{routed}`', f'the retry set does not {sorted(need - uses_ok)}', where=f'{fn.module.relpath}:{n.lineno}')
    chk.require(nprobe >= 1, 'funnel: no try block around the loose probe found')

    # P-l
    q = 'utils:LazyLooseStream.open_stream'
    g = ctx.icfg(q, {}, write_policy(depth=1, extra_stop={'container:Container.loosen_object'}), key='lazy')
    m = LazyOpenMachine(ctx, 'C04.Pl')
    viols, st = solve(g, m)
    chk.crash_points += st['pairs']
    chk.specialisations += 1
    chk.require(m.opens >= 1 and m.loosens >= 1, f'open_stream: open()/loosen_object() not found (opens={m.opens}, loosens={m.loosens})')
    for v in viols:
        chk.bad(Pl, q, 'open_stream', v.msg, where=f'{g.fn.module.relpath}:{g.fn.lineno}', witness=v.witness)
    if not viols:
        chk.ok(Pl, q, 'retry loop', detail='every normal exit has an opened stream; FileNotFoundError re-enters loosen_object or raises')

    # P-t: readers and loose writers tolerate a loose file that vanishes between two of their own steps: every path-based lookup (open for reading,
    # stat, read_bytes ...) of a file below loose/ in their code sits in a try that handles FileNotFoundError; exists() itself cannot fail and is exempt
    Pt = chk.rule('C04.Pt', 'readers / loose writers: every path-based open/stat of a loose file is guarded by a FileNotFoundError handler (a concurrent packer may remove it at any time)', 3)
    RW = [f for f in prog.all_functions() if not isinstance(f.node, ast.Lambda) and (
        f.qualname in (FUNNEL, 'container:Container.loosen_object', 'utils:_compute_hash_for_file')
        or (f.cls is not None and f.cls.qualname in ('utils:LazyLooseStream', 'utils:ObjectWriter')))]
    npt = 0
    for f in RW:
        for n, cal, effs in S.calls(f):
            for e in effs:
                if e[0] in ('STAT', 'READ_PATH') or (e[0] == 'OPEN' and not any(ch_ in (e[2] or '') for ch_ in 'wax+')):
                    pk = e[1]
                    ar = areas(K, pk)
                    if not (ar & {'loose', 'param', 'unknown'}) or (ar & {'sandbox'}):
                        continue
                    if ar <= {'param', 'unknown'} and f.qualname != 'utils:_compute_hash_for_file' and not (f.cls is not None and f.cls.qualname == 'utils:LazyLooseStream'):
                        continue
                    npt += 1
                    q = getattr(n, '_parent', None)
                    guarded = False
                    while q is not None and q is not f.node:
                        if isinstance(q, ast.Try) and any(n is x for b in q.body for x in ast.walk(b)):
                            for h in q.handlers:
                                ts = norm(h.type) if h.type is not None else '<bare>'
                                if any(t in ts for t in ('FileNotFoundError', 'OSError', 'Exception', '<bare>')):
                                    guarded = True
                        q = getattr(q, '_parent', None)
                    if guarded:
                        chk.ok(Pt, f.qualname, norm(n)[:80], detail='inside a try that handles FileNotFoundError', nontrivial=False)
                    else:
                        chk.bad(Pt, f.qualname, norm(n)[:100], f'{e[0]} of a loose file by path outside any FileNotFoundError handler: if the packer unlinks the file between this step and the previous one '
                                '(exists()/open()) the reader or writer fails although the object is safely packed', where=f'{f.module.relpath}:{n.lineno}')
    chk.require(npt >= 3, f'expected >= 3 path-based lookups of loose files in reader/writer code, found {npt}')

    # P-r0: every public key view answers through the funnel (which is where the fallback lives)
    Pr0 = chk.rule('C04.Pr0', 'reader: every public key view (existence, metadata, content, streams) goes through the read funnel, i.e. through the loose-probe -> refresh -> re-query fallback', 8)
    from .c02 import key_views_funnel_only
    key_views_funnel_only(ctx, chk, Pr0, S)

    # P-p4: the packer never rewinds or truncates a pack below bytes written earlier (only the tail of the object it is just writing)
    Pp4 = chk.rule('C04.Pp4', 'packer: a pack handle is only rewound to a tell() of the same iteration and truncated without size (bytes a reader may be reading never change)', 1)
    from .c13 import TargetMachine
    from .common import specialisations
    bad4 = False
    for q4 in ('container:Container.pack_all_loose', 'container:Container.add_streamed_objects_to_pack'):
        fn4 = prog.fn(q4)
        combos4 = [{}] if q4.endswith('pack_all_loose') else list(specialisations(fn4, {}, free={'do_fsync', 'do_commit', 'open_streams', 'compress'}))
        for consts in combos4:
            g4 = ctx.icfg(q4, consts, pol, key='wp5')
            m4 = TargetMachine(ctx, g4, rule='C04.Pp4x', rule3='C04.Pp4')
            viols, st = solve(g4, m4)
            chk.crash_points += st['pairs']
            for v in viols:
                if v.rule == 'C04.Pp4':
                    bad4 = True
                    chk.bad(Pp4, q4, v.node.text(100), v.msg + f' [flags {consts}]', where=v.node.where, witness=v.witness)
    if not bad4:
        chk.ok(Pp4, 'container:Container.add_streamed_objects_to_pack', 'seek/truncate sites on pack handles', detail='tail-only rewind (C13.R3 machine)')

    from .common import transaction_premises
    RDB = chk.rule('C04.Pdb', 'transaction premises: rows become visible to other connections only at COMMIT; WAL snapshots (explicit BEGIN, no autocommit, only PRAGMA journal_mode=wal)', 1)
    transaction_premises(ctx, chk, RDB)

    # rules of other properties that are necessary conditions of this one too: long-open reader handles are in the quantifier: the freshness rules of C08 are premises too
    if host is None:
        from ..report import host_modules
        host_modules(chk, ctx, ['C08', 'C07', 'C03'])

    return chk.finish(
        explanation=('Decides, from the source, the code-side premises of the protocol\'s safety argument (DESIGN 5/C04): writer publishes complete files '
                     'atomically and nobody removes its directories; the packer makes bytes visible before the row and removes the loose file only after '
                     'the commit; the cleaner decides on a fresh snapshot; the reader catches a vanished loose file, refreshes its session and re-queries '
                     'before answering MISSING, in both stream modes, and takes the loose size from the open descriptor; the lazy loose stream retries.'),
        rule_text='obligation = premise instance (entry point x stream mode x flag specialisation); non-trivial = decided by a path query on an ICFG with exception edges',
        assumptions=['POSIX rename/unlink semantics (an open file stays readable)', 'SQLite WAL snapshot isolation: a new session sees every earlier commit',
                     'one packer at a time', 'the argument from premises to the property is in DESIGN.md, not machine-checked'],
        not_decided='the interleaving semantics themselves (schedules): only the premises are decided, each a necessary condition.')


def clean_sites(ctx, chk, g):
    """(unlink node ids, feeding query node ids) of clean_storage (shared with C05.R3)."""
    from ..effects import last_assignment
    from .machines import loose_key_expr
    K, E = ctx.kinds, ctx.effects
    reach = g.reachable(('n',))
    unlinks, feeding = set(), set()
    for n in g.nodes:
        if n.id not in reach:
            continue
        for e in E.of(n):
            if e[0] == 'UNLINK' and in_area(K, e[1], 'loose') and n.frame is g.top:
                unlinks.add(n.id)
                ke = loose_key_expr(K, path_operand(n.ast), n.frame)
                chk.require(ke is not None, f'{n.where}: cannot find the hash key of the unlinked loose path')
                names = {r[2] for r in (root_name(o) for o in origin(K, ke[0], ke[1]) if o[0] == 'elem') if r and r[0] == 'name'}
                for m2 in g.nodes:
                    if m2.id in reach and m2.kind == 'call' and m2.callee is not None and m2.callee.kind == 'method' \
                            and m2.callee.name in ('append', 'add', 'extend') and isinstance(m2.callee.recv, ast.Name) \
                            and m2.callee.recv.id in names and m2.frame is g.top and m2.ast.args:
                        for o in origin(K, m2.ast.args[0], m2.frame):
                            r = root_name(o)
                            cands = []

                            def collect(x, depth=0):
                                if x is None or depth > 4:
                                    return
                                if isinstance(x, ast.Name):
                                    collect(last_assignment(x.id, g.top.fn, m2.ast.lineno), depth + 1)
                                elif isinstance(x, ast.Call):
                                    cands.append(x)
                                    for a in x.args:
                                        collect(a, depth + 1)
                            if r and r[0] == 'call':
                                collect(r[1])
                            elif r and r[0] == 'name':
                                collect(ast.Name(id=r[2], ctx=ast.Load()))
                            for qn in g.nodes:
                                if qn.kind == 'call' and any(qn.ast is c for c in cands) and any(e2[0] == 'DB_QUERY' for e2 in E.of(qn)):
                                    feeding.add(qn.id)
    chk.require(unlinks, 'clean_storage: no unlink of loose files found')
    chk.require(len(feeding) >= 2, f'clean_storage: expected both lookup strategies to feed the unlink list, found {len(feeding)} query site(s)')
    return unlinks, feeding
