"""C18 -- bounded resources: no descriptor leaks, one open file, chunked I/O (DESIGN 5, C18)."""
from __future__ import annotations

import ast

from ..cfg import Policy
from ..kinds import alts
from ..loader import norm, walk_local
from ..report import Check
from ..resolve import UNKNOWN, fold, platform_model
from ..solver import Machine, Violation
from ..solver import run as solve
from .common import Summaries, areas, strip_not, write_policy
from .funnel import FUNNEL, funnel_policy

F_DUPFDS = {0, 1030}  # F_DUPFD, F_DUPFD_CLOEXEC on Linux; F_DUPFD is 0 everywhere


class LeakMachine(Machine):
    """R1: descriptors opened by the function itself (open() assigned to a local, os.open) are closed on every normal path
    or handed over (returned / yielded / stored in an attribute whose owner closes it).  State = frozenset(open sites)."""
    edge_kinds = ('n',)

    def __init__(self, ctx, g, rule):
        self.E, self.K = ctx.effects, ctx.kinds
        self.rule = rule
        self.top = g.top
        self.opened = 0
        self.managed = set()
        # opens that are context-managed (`with open(...)`) are closed by the with-exit: the builder emits H_CLOSE there
        for n in g.nodes:
            if n.kind == 'with-enter' and isinstance(n.ast, ast.withitem) and isinstance(n.ast.context_expr, ast.Call):
                self.managed.add(id(n.ast.context_expr))

    def initial(self, g):
        return [frozenset()]

    def edge_state(self, edge, st, node, g):
        c = edge.cond
        if c is not None and st:
            e, pol = strip_not(c[0], c[2])
            # `x is None` true / `x.closed` true  => nothing open through x
            if isinstance(e, ast.Compare) and len(e.ops) == 1 and isinstance(e.ops[0], (ast.Is, ast.IsNot)) and isinstance(e.comparators[0], ast.Constant) \
                    and e.comparators[0].value is None:
                is_none = pol if isinstance(e.ops[0], ast.Is) else not pol
                k = self.K.kind(e.left, c[1])
                if is_none and any(a[0] in ('handle', 'fd') for a in alts(k)):
                    sites = {a[3] if a[0] == 'handle' else a[2] for a in alts(k) if a[0] in ('handle', 'fd')}
                    if st & sites:
                        return None
            if isinstance(e, ast.Attribute) and e.attr == 'closed' and pol:
                k = self.K.kind(e.value, c[1])
                sites = {a[3] for a in alts(k) if a[0] == 'handle'}
                if st & sites:
                    return None
        return st

    def transfer(self, node, st, g):
        s = set(st)
        viol = []
        for e in self.E.of(node):
            if e[0] == 'OPEN':
                self.opened += 1
                s.add(e[3])
            elif e[0] == 'OPEN_FD':
                self.opened += 1
                s.add(e[2])
            elif e[0] == 'H_CLOSE' and e[1][0] == 'handle':
                s.discard(e[1][3])
            elif e[0] == 'CLOSE_FD' and e[1] and e[1][0] == 'fd':
                s.discard(e[1][2])
        # hand-over: returned / yielded / stored on self
        a = node.ast
        if node.kind in ('return', 'yield') or (node.kind == 'stmt' and isinstance(a, (ast.Assign, ast.AnnAssign))
                                                and isinstance((a.targets[0] if isinstance(a, ast.Assign) else a.target), ast.Attribute)):
            val = a.value if not isinstance(a, ast.Expr) else a.value
            if isinstance(val, ast.Yield):
                val = val.value
            if val is not None:
                for x in ast.walk(val):
                    if isinstance(x, (ast.Name, ast.Call, ast.Attribute)):
                        k = self.K.kind(x, node.frame)
                        for al in alts(k):
                            if al[0] == 'handle':
                                s.discard(al[3])
                            elif al[0] == 'fd':
                                s.discard(al[2])
        return [frozenset(s)] + viol

    def at_exit(self, node, st, g):
        if node is g.exit and st:
            return [Violation(self.rule, node, st, f'{len(st)} descriptor(s) opened in this function are still open on a normal return path (not closed, returned or stored)')]
        return []


class OneOpenMachine(Machine):
    """R2: the read funnel keeps at most one pack/loose file open at a time.  State = number of open files (0/1)."""
    edge_kinds = ('n', 'e')

    def __init__(self, ctx, g, rule):
        self.E, self.K = ctx.effects, ctx.kinds
        self.rule = rule
        self.opens = 0
        self.top = g.top

    def initial(self, g):
        return [frozenset()]

    def edge_state(self, edge, st, node, g):
        c = edge.cond
        if c is not None and st and c[1] is self.top:
            e, pol = strip_not(c[0], c[2])
            if isinstance(e, ast.Compare) and len(e.ops) == 1 and isinstance(e.ops[0], (ast.Is, ast.IsNot)) and isinstance(e.comparators[0], ast.Constant) \
                    and e.comparators[0].value is None:
                is_none = pol if isinstance(e.ops[0], ast.Is) else not pol
                k = self.K.kind(e.left, c[1])
                if is_none and any(a[0] == 'handle' for a in alts(k)):
                    return None
            if isinstance(e, ast.Attribute) and e.attr == 'closed' and pol and any(a[0] == 'handle' for a in alts(self.K.kind(e.value, c[1]))):
                return None
        if edge.kind == 'e' and node.kind == 'call' and any(e2[0] == 'OPEN' for e2 in self.E.of(node)):
            # the open itself failed: nothing new is open
            return st
        return st

    def transfer(self, node, st, g):
        s = set(st)
        viol = []
        for e in self.E.of(node):
            if e[0] == 'OPEN' and node.frame is self.top:
                self.opens += 1
                if s:
                    viol.append(Violation(self.rule, node, st, 'a pack/loose file is opened while another one opened by the same bulk read is still open: '
                                          'open descriptors grow with the number of packs/objects requested'))
                s.add(e[3])
            elif e[0] == 'H_CLOSE' and e[1][0] == 'handle':
                # the variable may hold any of its open sites: closing it closes the one that is open
                sites = {a[3] for a in alts(e[1]) if a[0] == 'handle'} | {e[1][3]}
                if s & sites or True:
                    s.clear()
        return [frozenset(s)] + viol

    def at_exit(self, node, st, g):
        if st:
            return [Violation(self.rule, node, st, 'the bulk read generator can finish (normally or by an exception) with a file still open')]
        return []


def run(ctx, host=None):
    chk = host.sub('C18') if host is not None else Check('C18', ctx)
    prog, K, E = ctx.prog, ctx.kinds, ctx.effects
    R1 = chk.rule('C18.R1', 'every descriptor-producing call is with-managed, closed on all normal paths, handed over, or owned by a class that closes it', 20)
    R1c = chk.rule('C18.R1c', 'Container.close closes and disposes both sessions; __exit__ and __del__ call it', 3)
    R2 = chk.rule('C18.R2', 'bulk reads keep at most one pack or loose file open; the lazy loose stream is closed after each yield', 3)
    R3 = chk.rule('C18.R3', 'no call that returns a new descriptor has its result discarded (os.open/os.dup/fcntl F_DUPFD), per platform model', 2)
    R4 = chk.rule('C18.R4', 'lazily opened input streams are only used inside their `with` block', 1)
    R5 = chk.rule('C18.R5', 'streaming loops read in bounded chunks', 8)
    S = Summaries(ctx)

    # ---------------------------------------------------------------- R1
    nsites = 0
    owners_ok = {}
    for f in prog.all_functions():
        if isinstance(f.node, ast.Lambda):
            continue
        sites = []
        for n, cal, effs in S.calls(f):
            for e in effs:
                if e[0] in ('OPEN', 'OPEN_FD', 'SQLITE_CONNECT'):
                    sites.append((n, e))
        tmp = [n for n in walk_local(f.node) if isinstance(n, ast.Call) and norm(n.func).startswith('tempfile.')]
        if not sites and not tmp:
            continue
        nsites += len(sites) + len(tmp)
        for n in tmp:
            p = getattr(n, '_parent', None)
            if isinstance(p, ast.withitem):
                chk.ok(R1, f.qualname, norm(n)[:80], detail='with-managed temporary directory', nontrivial=False)
            else:
                chk.bad(R1, f.qualname, norm(n)[:80], 'a tempfile object is created outside a `with` block', where=f'{f.module.relpath}:{n.lineno}')
        if not sites:
            continue
        # sqlite connections: closed explicitly
        for n, e in sites:
            if e[0] == 'SQLITE_CONNECT':
                p = getattr(n, '_parent', None)
                name = p.targets[0].id if isinstance(p, ast.Assign) and isinstance(p.targets[0], ast.Name) else None
                closes = [c for c in walk_local(f.node) if isinstance(c, ast.Call) and isinstance(c.func, ast.Attribute) and c.func.attr == 'close'
                          and isinstance(c.func.value, ast.Name) and c.func.value.id == name]
                if name and closes:
                    chk.ok(R1, f.qualname, norm(n)[:80], detail=f'`{name}.close()` follows', nontrivial=False)
                else:
                    chk.bad(R1, f.qualname, norm(n)[:80], 'sqlite3 connection is not closed in the function that opened it', where=f'{f.module.relpath}:{n.lineno}')
        fsites = [(n, e) for n, e in sites if e[0] != 'SQLITE_CONNECT']
        if not fsites:
            continue
        g = ctx.icfg(f.qualname, {}, Policy(depth=0), key='d0')
        m = LeakMachine(ctx, g, 'C18.R1')
        viols, st = solve(g, m)
        chk.crash_points += st['pairs']
        chk.specialisations += 1
        if viols:
            # stored in an attribute?  then the owning class must close it
            for v in viols:
                chk.bad(R1, f.qualname, '; '.join(norm(n)[:60] for n, e in fsites), v.msg, where=f'{f.module.relpath}:{fsites[0][0].lineno}', witness=v.witness)
        else:
            for n, e in fsites:
                chk.ok(R1, f.qualname, norm(n)[:80], detail='closed / handed over on every normal path')
    chk.require(nsites >= 15, f'expected at least 15 descriptor-producing sites in the package, found {nsites}')
    # attribute-stored handles: owner classes close them
    for clsq, attr, closer in (('utils:LazyOpener', '_fhandle', '__exit__'), ('utils:LazyLooseStream', '_stream', 'close_stream'),
                               ('utils:ObjectWriter', '_filehandle', '__exit__')):
        ci = prog.cls(clsq)
        mf = ci.methods.get(closer)
        closes = mf is not None and any(isinstance(c, ast.Call) and isinstance(c.func, ast.Attribute) and c.func.attr == 'close' and attr in norm(c.func.value)
                                        for c in walk_local(mf.node))
        # the close must also happen when the `with` block (or the publishing code) raised: at least one close() that is not under a test of the exception
        # argument and not inside the body of a try (a `finally`, or straight-line code)
        always = False
        early_exit = None
        if mf is not None:
            for c in walk_local(mf.node):
                if isinstance(c, ast.Call) and isinstance(c.func, ast.Attribute) and c.func.attr == 'close' and attr in norm(c.func.value):
                    ok_here = True
                    a, child = getattr(c, '_parent', None), c
                    while a is not None and a is not mf.node:
                        if isinstance(a, ast.If) and any(isinstance(x, ast.Name) and x.id in ('exc_type', 'value', 'exc_value', 'traceback') for x in ast.walk(a.test)):
                            ok_here = False
                        if isinstance(a, ast.Try) and any(child is x or any(child is y for y in ast.walk(x)) for x in a.body + a.orelse):
                            ok_here = False
                        if isinstance(a, ast.ExceptHandler):
                            ok_here = False
                        child, a = a, getattr(a, '_parent', None)
                    if ok_here:
                        # an exit of the method that leaves before the top-level statement holding this close (an early `return` / `raise` for the
                        # failure case) skips it, unless the exiting block closes the handle itself
                        top = c
                        while getattr(top, '_parent', None) is not None and getattr(top, '_parent', None) is not mf.node:
                            top = top._parent
                        for st in mf.node.body:
                            if st is top:
                                break
                            for x in ast.walk(st):
                                if isinstance(x, (ast.Return, ast.Raise)) and not isinstance(st, (ast.FunctionDef, ast.ClassDef)):
                                    blk = getattr(x, '_parent', None)
                                    sib = [y for fld in ('body', 'orelse', 'finalbody') for y in (getattr(blk, fld, None) or []) if isinstance(getattr(blk, fld, None), list)]
                                    closes_first = any(isinstance(z, ast.Call) and isinstance(z.func, ast.Attribute) and z.func.attr == 'close' and attr in norm(z.func.value)
                                                       for y in sib if y.lineno < x.lineno for z in ast.walk(y))
                                    if not closes_first and early_exit is None:
                                        early_exit = x
                    always = always or ok_here
        if closes and always and early_exit is not None and closer == '__exit__':
            chk.bad(R1, f'{clsq}.{closer}', f'self.{attr}.close()', f'`{closer}` leaves at line {early_exit.lineno} (`{norm(early_exit)[:40]}`) before the statement that closes `{attr}`: on that path the '
                    'descriptor stays open (one leaked descriptor per failed write)', where=f'{ci.module.relpath}:{early_exit.lineno}')
        elif closes and not always and closer == '__exit__':
            chk.bad(R1, f'{clsq}.{closer}', f'self.{attr}.close()', f'`{closer}` closes `{attr}` only on the success path: when the with-block or the publishing code raises, the descriptor stays open '
                    '(one leaked descriptor per failed write)', where=f'{ci.module.relpath}:{mf.lineno}')
        elif closes:
            chk.ok(R1, f'{clsq}.{closer}', f'self.{attr}.close()', detail='the owner closes the handle it stores', nontrivial=False)
        else:
            chk.bad(R1, f'{clsq}.{closer}', f'self.{attr}', f'{clsq} stores an open handle in `{attr}` but `{closer}` no longer closes it', where=f'{ci.module.relpath}:{ci.node.lineno}')

    # the sessions a handle creates are plain instance attributes set in __init__ (so close() reaches every one of them): not properties /
    # descriptors, and nothing per-thread (threading.local) that a close() from another thread cannot release
    contc = K.container
    initc = contc.methods.get('__init__')
    sess_attrs = []
    for n in walk_local(initc.node):
        tgt = n.targets[0] if isinstance(n, ast.Assign) and len(n.targets) == 1 else (n.target if isinstance(n, ast.AnnAssign) else None)
        if isinstance(tgt, ast.Attribute) and norm(tgt.value) == 'self' and tgt.attr.endswith('_session'):
            sess_attrs.append(tgt.attr)
    tl = [n for f2 in prog.all_functions() if f2.cls is contc and not isinstance(f2.node, ast.Lambda) for n in walk_local(f2.node)
          if isinstance(n, ast.Call) and norm(n.func).split('.')[-1] in ('local',) and 'threading' in norm(n.func) or (isinstance(n, ast.Call) and norm(n.func) in ('local', 'threading.local', 'ContextVar', 'contextvars.ContextVar'))]
    props = [a for a in ('_operation_session', '_container_session') if a in contc.methods]
    if props or tl or set(sess_attrs) != {'_operation_session', '_container_session'}:
        what = props[0] if props else (norm(tl[0]) if tl else f'session attributes {sess_attrs}')
        chk.bad(R1c, contc.qualname, what, 'the cached sessions are not plain per-handle attributes initialised in __init__ (property / thread-local storage): close() then releases only the '
                'session of the calling thread, and the SQLite descriptors opened through the handle by other threads stay open', where=f'{contc.module.relpath}:{initc.lineno}')
    else:
        chk.ok(R1c, contc.qualname, f'{sorted(sess_attrs)} set in __init__', detail='per-handle attributes; no thread-local / property indirection', nontrivial=False)

    # ---------------------------------------------------------------- R1c
    cl = prog.fn('container:Container.close')
    trans = S.trans(cl, depth=2)
    txt = ' '.join(norm(n) for n in walk_local(cl.node)) + ' ' + ' '.join(norm(n) for n in walk_local(prog.fn('container:Container._close_operation_session').node))
    need = ['_operation_session.close()', '_container_session.close()']
    for nd in need:
        if nd in txt:
            chk.ok(R1c, cl.qualname, nd, detail='session closed', nontrivial=False)
        else:
            chk.bad(R1c, cl.qualname, nd, f'Container.close() no longer calls {nd}: the SQLite file descriptors of that session stay open', where=f'{cl.module.relpath}:{cl.lineno}')
    # close() always does its work: no early return, the operation session is closed at the top level of the body, and the container session under nothing
    # but its own None test (a "already closed" flag makes the second close of a re-used handle a no-op and leaks what was opened in between)
    def _nothing_to_close(r):
        # `if self._x_session is None: return` -- a guard clause that returns because there is nothing (left) to close
        par = getattr(r, '_parent', None)
        return isinstance(par, ast.If) and par.body == [r] and not par.orelse and norm(par.test).endswith('_session is None') and r is cl.node.body[-1 if False else cl.node.body.index(par)].body[0] \
            and all(not (isinstance(x, ast.Call) and 'close' in norm(x.func)) for later in cl.node.body[cl.node.body.index(par) + 1:] for x in ast.walk(later) if '_operation_session' in norm(x))
    early = [n for n in walk_local(cl.node) if isinstance(n, ast.Return) and not (getattr(n, '_parent', None) in cl.node.body and _nothing_to_close(n))]
    top_close = any(isinstance(st, ast.Expr) and isinstance(st.value, ast.Call) and norm(st.value.func) == 'self._close_operation_session' for st in cl.node.body)
    guards = []
    for n in walk_local(cl.node):
        if isinstance(n, ast.Call) and isinstance(n.func, ast.Attribute) and n.func.attr == 'close' and '_container_session' in norm(n.func.value):
            a = getattr(n, '_parent', None)
            while a is not None and a is not cl.node:
                if isinstance(a, ast.If) and not (norm(a.test).endswith('is not None') and '_container_session' in norm(a.test)):
                    guards.append(a)
                a = getattr(a, '_parent', None)
    if early or not top_close or guards:
        w = (early or guards or [cl.node])[0]
        chk.bad(R1c, cl.qualname, norm(w)[:80] if not isinstance(w, ast.FunctionDef) else 'close()', 'close() does not always close: an early return / extra guard / conditional call skips closing the sessions on some path '
                '(e.g. an "already closed" flag that is not re-armed when the handle is used again): the SQLite descriptors opened after the first close stay open', where=f'{cl.module.relpath}:{getattr(w, "lineno", cl.lineno)}')
    else:
        chk.ok(R1c, cl.qualname, 'unconditional', detail='no early return; operation session closed at top level; container session under its own None test only', nontrivial=False)
    ndispose = sum(1 for ff in (cl, prog.fn('container:Container._close_operation_session')) for n in walk_local(ff.node)
                   if isinstance(n, ast.Call) and isinstance(n.func, ast.Attribute) and n.func.attr == 'dispose')
    badguard = None
    for ff in (cl, prog.fn('container:Container._close_operation_session')):
        for n in walk_local(ff.node):
            if isinstance(n, ast.Call) and isinstance(n.func, ast.Attribute) and n.func.attr == 'dispose':
                a = getattr(n, '_parent', None)
                while a is not None and a is not ff.node:
                    if isinstance(a, (ast.If, ast.While, ast.IfExp)):
                        t = norm(a.test)
                        if not (t.startswith('isinstance(') or t.endswith('is not None') or t.endswith('is None')):
                            badguard = (ff, a)
                    if isinstance(a, (ast.Try,)) and any(n is x for h in a.handlers for b in h.body for x in ast.walk(b)):
                        badguard = (ff, a)
                    a = getattr(a, '_parent', None)
    if badguard is not None:
        chk.bad(R1c, badguard[0].qualname, f'if {norm(badguard[1].test)[:60]}: ... dispose()' if hasattr(badguard[1], 'test') else 'dispose() in a handler', 'the engine of a closed session is disposed only '
                'under a further condition: on the other path the engine is dropped with its pooled SQLite connection still open (packs.idx, -wal), out of reach of close() -- descriptors accumulate '
                'with every session refresh until a garbage collection happens to run', where=f'{badguard[0].module.relpath}:{badguard[1].lineno}')
    elif ndispose >= 2:
        chk.ok(R1c, cl.qualname, 'binding.dispose() x2', detail='connection pools of both engines are released; guarded only by the None / isinstance tests')
    else:
        chk.bad(R1c, cl.qualname, 'binding.dispose()', f'engine disposal found {ndispose} time(s), expected for both sessions: pooled SQLite connections keep descriptors open after close()',
                where=f'{cl.module.relpath}:{cl.lineno}')
    for mname in ('__exit__', '__del__'):
        mf = prog.fn(f'container:Container.{mname}')
        if any(isinstance(c, ast.Call) and norm(c.func) == 'self.close' for c in walk_local(mf.node)):
            chk.ok(R1c, mf.qualname, 'self.close()', detail='', nontrivial=False)
        else:
            chk.bad(R1c, mf.qualname, 'self.close()', f'{mname} no longer closes the container', where=f'{mf.module.relpath}:{mf.lineno}')
    # init_container(clear) closes before rmtree: covered by C02

    # ---------------------------------------------------------------- R2
    for ws in (True,):
        g = ctx.icfg(FUNNEL, {'with_streams': ws}, funnel_policy(), key='funnel')
        m = OneOpenMachine(ctx, g, 'C18.R2')
        viols, st = solve(g, m)
        chk.crash_points += st['pairs']
        chk.specialisations += 1
        chk.require(m.opens >= 3, f'funnel: expected 3 open() sites (2 pack loops + loose), found {m.opens}')
        for v in viols:
            chk.bad(R2, FUNNEL, v.node.text(100) if v.node.ast is not None else v.node.label, v.msg, where=v.node.where, witness=v.witness)
        if not viols:
            chk.ok(R2, FUNNEL, f'{m.opens} open site visits', detail='never two files open; closed on every exit incl. exceptions and generator close')
    fn = prog.fn(FUNNEL)
    ys = [n for n in walk_local(fn.node) if isinstance(n, ast.Expr) and isinstance(n.value, ast.Yield)]
    lazy_yields = 0
    # by def-use: readers = locals assigned from PackedObjectReader(...); lazy streams = locals assigned from get_lazy_loose_stream(...)
    reader_vars = {a.targets[0].id for a in walk_local(fn.node) if isinstance(a, (ast.Assign,)) and isinstance(a.targets[0], ast.Name) and isinstance(a.value, ast.Call) and norm(a.value.func) == 'PackedObjectReader'}
    reader_vars |= {a.target.id for a in walk_local(fn.node) if isinstance(a, ast.AnnAssign) and isinstance(a.target, ast.Name) and isinstance(a.value, ast.Call) and norm(a.value.func) == 'PackedObjectReader'}
    lazy_vars = {a.targets[0].id for a in walk_local(fn.node) if isinstance(a, ast.Assign) and isinstance(a.targets[0], ast.Name) and isinstance(a.value, ast.Call) and norm(a.value.func).endswith('get_lazy_loose_stream')}
    for y in ys:
        if {x.id for x in ast.walk(y) if isinstance(x, ast.Name)} & reader_vars:
            lazy_yields += 1
            blk = getattr(y, '_parent', None)
            body = getattr(blk, 'body', [])
            idx = body.index(y) if y in body else -1
            nxt = body[idx + 1] if 0 <= idx < len(body) - 1 else None
            if isinstance(nxt, ast.If) and ({x.id for x in ast.walk(nxt.test) if isinstance(x, ast.Name)} & lazy_vars) and any(isinstance(c, ast.Call) and norm(c.func).endswith('close_stream') for c in ast.walk(nxt)):
                chk.ok(R2, FUNNEL, f'yield at line {y.lineno}', detail='lazy loose stream closed right after the consumer returns', nontrivial=False)
            else:
                chk.bad(R2, FUNNEL, norm(y)[:80], 'the lazy loose stream handed to the consumer is not closed after the yield: one descriptor per compressed object read with seek() stays open',
                        where=f'{fn.module.relpath}:{y.lineno}')
    chk.require(lazy_yields >= 2, f'funnel: expected 2 stream yields of packed objects, found {lazy_yields}')

    # ---------------------------------------------------------------- R3
    sf = prog.fn('utils:safe_flush_to_disk')
    models = [('this platform', {}), ('macOS model', {'fcntl.F_FULLFSYNC': 51})]
    for mname, ov in models:
        for b in ({'use_fullsync': False}, {'use_fullsync': True}):
            with platform_model(ov):
                g = ctx.icfg(sf.qualname, b, write_policy(depth=2), key=('wp2', mname))
                reach = g.reachable(('n',))
                dup = []
                for n in g.nodes:
                    if n.id in reach:
                        for e in E.of(n):
                            if e[0] == 'FCNTL' and (e[2] in F_DUPFDS):
                                dup.append(n)
            chk.specialisations += 1
            if dup:
                chk.bad(R3, sf.qualname, dup[0].text(100), f'fcntl.fcntl(fd, {0}) is F_DUPFD on {mname} with {b}: it returns a NEW descriptor that is dropped -> one leaked descriptor per call '
                        '(and no sync)', where=dup[0].where)
            else:
                chk.ok(R3, sf.qualname, f'{b} on {mname}', detail='no reachable fcntl call whose command folds to F_DUPFD')
    ndisc = 0
    for f in prog.all_functions():
        if isinstance(f.node, ast.Lambda):
            continue
        for n in walk_local(f.node):
            if isinstance(n, ast.Expr) and isinstance(n.value, ast.Call) and norm(n.value.func) in ('os.open', 'os.dup', 'os.dup2', 'os.openpty', 'os.pipe'):
                ndisc += 1
                chk.bad(R3, f.qualname, norm(n), 'the descriptor returned by this call is discarded', where=f'{f.module.relpath}:{n.lineno}')
    # os.open results are closed (LeakMachine covers locals); ObjectWriter's dirfd:
    # ---------------------------------------------------------------- R4
    q = 'container:Container.add_streamed_objects_to_pack'
    f = prog.fn(q)
    # the context managers that open the input streams: names bound in the per-stream loop (element of the `stream_list` parameter, possibly wrapped)
    sparam = next((p_ for p_ in f.params if p_ != 'self'), None)
    cm_vars = {sparam}
    changed = True
    while changed:
        changed = False
        for a in walk_local(f.node):
            if isinstance(a, ast.Assign) and isinstance(a.targets[0], ast.Name) and a.targets[0].id not in cm_vars \
                    and {x.id for x in ast.walk(a.value) if isinstance(x, ast.Name)} & cm_vars:
                cm_vars.add(a.targets[0].id)
                changed = True
    withs = [n for n in walk_local(f.node) if isinstance(n, ast.With) and any(isinstance(it.context_expr, ast.Name) and it.context_expr.id in cm_vars and it.optional_vars is not None for it in n.items)]
    chk.require(withs, f'{q}: `with stream_context_manager as stream` not found')
    for w in withs:
        var = next(it.optional_vars.id for it in w.items if isinstance(it.optional_vars, ast.Name))
        inside = {id(x) for st_ in w.body for x in ast.walk(st_)}
        outside = [x for x in walk_local(f.node) if isinstance(x, ast.Name) and x.id == var and id(x) not in inside and not any(x is it.optional_vars for it in w.items)]
        if outside:
            chk.bad(R4, q, f'use of `{var}` at line {outside[0].lineno}', f'the lazily opened stream `{var}` is used outside its `with` block (after it was closed / before it was opened)',
                    where=f'{f.module.relpath}:{outside[0].lineno}')
        else:
            chk.ok(R4, q, f'with ... as {var}', detail='every use of the stream is inside the with block')
        cm = norm(w.items[0].context_expr)
        # the context manager is the LazyOpener itself when open_streams is true
        assigns = [a for a in walk_local(f.node) if isinstance(a, ast.Assign) and isinstance(a.targets[0], ast.Name) and a.targets[0].id == cm]
        if assigns and not any(isinstance(a.value, ast.Name) for a in assigns):
            chk.bad(R4, q, cm, 'with open_streams=True the stream object itself is no longer used as the context manager', where=f'{f.module.relpath}:{w.lineno}')

    # ---------------------------------------------------------------- R5
    exempt = {
        'container:Container.get_object_content': 'convenience whole-object read (documented: only if it fits in memory)',
        'container:Container.get_objects_content': 'convenience whole-object reads',
        'container:Container.import_objects': 'whole-object reads guarded by meta.size <= target_memory_bytes (checked below)',
        'utils:LazyLooseStream.read': 'proxy', 'utils:CallbackStreamWrapper.read': 'proxy', 'utils:ZlibLikeBaseStreamDecompresser.read': 'proxy / delegates to _read_compressed',
        'utils:PackedObjectReader.read': 'bounded by the object length (C07.R3)',
    }
    nloops = 0
    for f in prog.all_functions():
        if isinstance(f.node, ast.Lambda) or f.qualname in exempt:
            continue
        for n in walk_local(f.node):
            if not (isinstance(n, ast.Call) and isinstance(n.func, ast.Attribute) and n.func.attr == 'read'):
                continue
            lp = getattr(n, '_parent', None)
            inloop = False
            while lp is not None and lp is not f.node:
                if isinstance(lp, (ast.While, ast.For)):
                    inloop = True
                lp = getattr(lp, '_parent', None)
            if not inloop:
                continue
            nloops += 1
            a = n.args[0] if n.args else None
            ok = False
            why = ''
            if a is not None:
                v = fold(prog, a, f)
                if isinstance(v, int) and 0 < v <= 16 * 1024 * 1024:
                    ok, why = True, f'constant {v}'
                elif isinstance(a, ast.Name):
                    va = [x.value for x in walk_local(f.node) if isinstance(x, ast.Assign) and isinstance(x.targets[0], ast.Name) and x.targets[0].id == a.id]
                    vals = [fold(prog, x, f) for x in va]
                    if vals and all(isinstance(x, int) and 0 < x <= 16 * 1024 * 1024 for x in vals):
                        ok, why = True, f'local constant {vals}'
                elif isinstance(a, ast.Call) and norm(a.func) in ('min', 'max'):
                    cs = [fold(prog, x, f) for x in ast.walk(a) if isinstance(x, (ast.Name, ast.Attribute, ast.Constant, ast.BinOp))]
                    if any(isinstance(x, int) and 0 < x <= 16 * 1024 * 1024 for x in cs):
                        if norm(a.func) == 'min' or (norm(a.func) == 'max' and any(isinstance(x, ast.BinOp) and isinstance(x.op, ast.Sub) for x in a.args)):
                            ok, why = True, 'bounded by a constant'
                        # names assigned constants
                    if not ok:
                        for x in ast.walk(a):
                            if isinstance(x, ast.Name):
                                va = [y.value for y in walk_local(f.node) if isinstance(y, ast.Assign) and isinstance(y.targets[0], ast.Name) and y.targets[0].id == x.id]
                                if va and all(isinstance(fold(prog, y, f), int) for y in va) and norm(a.func) == 'min':
                                    ok, why = True, f'min() with local constant `{x.id}`'
            if ok:
                chk.ok(R5, f.qualname, norm(n)[:80], detail=why)
            else:
                chk.bad(R5, f.qualname, norm(n)[:100], 'a read inside a streaming loop has no constant bound on its size: peak memory grows with the object size', where=f'{f.module.relpath}:{n.lineno}')
    chk.require(nloops >= 8, f'expected at least 8 chunked reads in streaming loops, found {nloops}')
    # a `.read` method value that escapes un-called (iter(fh.read, b''), map, a callback): whoever calls it passes no size, so one call
    # reads the whole stream; only functools.partial(<x>.read, <constant bound>) keeps the bound
    for f in prog.all_functions():
        if isinstance(f.node, ast.Lambda) or f.qualname in exempt:
            continue
        for n in walk_local(f.node):
            if not (isinstance(n, ast.Attribute) and n.attr == 'read' and isinstance(n.ctx, ast.Load)):
                continue
            par = getattr(n, '_parent', None)
            if isinstance(par, ast.Call) and par.func is n:
                continue
            if isinstance(par, ast.Call) and norm(par.func) in ('partial', 'functools.partial') and len(par.args) >= 2 and par.args[0] is n:
                v = fold(prog, par.args[1], f)
                if isinstance(v, int) and 0 < v <= 16 * 1024 * 1024:
                    chk.ok(R5, f.qualname, norm(par)[:80], detail=f'partial with constant {v}')
                    continue
            chk.bad(R5, f.qualname, norm(par if par is not None else n)[:100], f'the method value `{norm(n)}` is handed over un-called: its caller (iter() with a sentinel, a callback) calls read() without a size, '
                    'so one call reads the whole stream into memory -- peak memory grows with the object size', where=f'{f.module.relpath}:{n.lineno}')
    # streaming inflate: decompressobj.decompress(data, max_length) -- without max_length one 512 KiB compressed chunk of a
    # well-compressible object inflates to hundreds of MiB at once
    ndec = 0
    for f in prog.all_functions():
        if isinstance(f.node, ast.Lambda):
            continue
        for n in walk_local(f.node):
            if isinstance(n, ast.Call) and isinstance(n.func, ast.Attribute) and n.func.attr == 'decompress' and isinstance(n.func.value, (ast.Attribute, ast.Name)) and f.cls is not None and (f.cls.qualname.endswith('StreamDecompresser') or 'Decompresser' in f.cls.qualname):
                ndec += 1
                ml = n.args[1] if len(n.args) > 1 else next((k.value for k in n.keywords if k.arg == 'max_length'), None)
                if ml is not None and not (isinstance(ml, ast.Constant) and ml.value in (0, None)):
                    chk.ok(R5, f.qualname, norm(n)[:80], detail=f'inflate bounded by max_length=`{norm(ml)}`')
                else:
                    chk.bad(R5, f.qualname, norm(n)[:100], 'the streaming decompresser inflates a whole compressed chunk without max_length: memory grows with the compression ratio / object size',
                            where=f'{f.module.relpath}:{n.lineno}')
    chk.require(ndec >= 1, 'streaming decompress call not found')
    # import_objects: whole-object reads are guarded by the memory budget
    imp = prog.fn('container:Container.import_objects')
    for n in walk_local(imp.node):
        if isinstance(n, ast.Call) and isinstance(n.func, ast.Attribute) and n.func.attr == 'read' and not n.args:
            p = getattr(n, '_parent', None)
            guarded = False
            prev = n
            while p is not None and p is not imp.node:
                if isinstance(p, ast.If) and 'target_memory_bytes' in norm(p.test):
                    t = p.test
                    in_body = any(prev is s or any(prev is x for x in ast.walk(s)) for s in p.body)
                    if isinstance(t, ast.Compare) and isinstance(t.ops[0], ast.Gt) and 'meta.size' in norm(t.left):
                        guarded = guarded or not in_body
                    else:
                        guarded = True
                prev = p
                p = getattr(p, '_parent', None)
            if guarded:
                chk.ok(R5, imp.qualname, norm(n), detail='only for objects with meta.size <= target_memory_bytes', nontrivial=False)
            else:
                chk.bad(R5, imp.qualname, norm(n), 'a whole-object read in import_objects is not guarded by the memory budget', where=f'{imp.module.relpath}:{n.lineno}')

    # shutil.copyfileobj(src, dst, length): the third argument is the buffer size -- it must be a constant (or absent), never a per-object quantity
    for f in prog.all_functions():
        if isinstance(f.node, ast.Lambda):
            continue
        for n in walk_local(f.node):
            if isinstance(n, ast.Call) and norm(n.func).endswith('copyfileobj'):
                ln = n.args[2] if len(n.args) > 2 else next((k.value for k in n.keywords if k.arg == 'length'), None)
                v = fold(prog, ln, f) if ln is not None else None
                if ln is None or isinstance(v, int):
                    chk.ok(R5, f.qualname, norm(n)[:80], detail='constant copy buffer', nontrivial=False)
                else:
                    chk.bad(R5, f.qualname, norm(n)[:100], f'the copy buffer size `{norm(ln)}` is not a constant: with an object-sized buffer the whole object is read into memory in one call',
                            where=f'{f.module.relpath}:{n.lineno}')

    # whole-object helpers (content in / out as one bytes object) are API conveniences for callers who know the object fits in memory: the package itself
    # never routes its own work through them, except the import cache, which is bounded by target_memory_bytes (checked above)
    WHOLE = {'get_object_content': (), 'get_objects_content': (), 'add_object': (), 'add_objects_to_pack': ('container:Container.import_objects',)}
    from .common import CallGraph, Summaries as _Sum
    cg = CallGraph(ctx, S if 'S' in dir() else _Sum(ctx))
    for name, allowed in WHOLE.items():
        tf = contc.methods.get(name)
        chk.require(tf is not None, f'Container.{name} not found')
        callers = sorted(c for c in cg.callers.get(tf.qualname, set()) if c not in allowed and c.split('.')[-1] not in WHOLE)
        # calls by name that the resolver may not see (self.<name>(...) in any function of the package)
        for f in prog.all_functions():
            if isinstance(f.node, ast.Lambda) or f.qualname in allowed or f.name in WHOLE:
                continue
            for n in walk_local(f.node):
                if isinstance(n, ast.Call) and isinstance(n.func, ast.Attribute) and n.func.attr == name and f.qualname not in callers and f.module.name in ('container', 'utils', 'backup_utils'):
                    callers.append(f.qualname)
        if callers:
            for c in callers:
                cf_ = prog.fn(c)
                chk.bad(R5, c, f'call of {name}()', f'`{name}` holds a whole object in memory; it is called from `{c}`, one of the package\'s own paths (the lazy loose copy, packing, validation, ... '
                        'are documented to stream in bounded chunks): peak memory now grows with the object size', where=f'{cf_.module.relpath}:{cf_.lineno}')
        else:
            chk.ok(R5, tf.qualname, f'callers inside the package: {list(allowed) or "none"}', detail='whole-object helper not used by the streaming paths', nontrivial=False)

    from .common import option_forwarding
    R6 = chk.rule('C18.R6', 'open_streams is forwarded unchanged by every wrapper (lazily opened inputs stay lazy)', 1)
    nf = option_forwarding(ctx, chk, R6, ['open_streams'])
    chk.require(nf >= 1, f'expected >= 1 forwarding site of open_streams, found {nf}')

    # rules of other properties that are necessary conditions of this one too: "peak memory does not grow with object size" for reads of compressed objects rests on the
    # decompresser's buffer discipline and bounded seek reads (C07.R5/R8)
    if host is None:
        from ..report import host_modules
        host_modules(chk, ctx, ['C07'])

    return chk.finish(
        explanation=('Static resource rules: a leak typestate per function over every descriptor-producing call (open, os.open, sqlite3.connect, tempfile) with hand-over '
                     '(return / yield / owner attribute) and owner-closes checks; Container.close closes and disposes both sessions; a one-open-file typestate on the bulk '
                     'read generator including exception edges and generator exit; discarded descriptor-producing calls incl. fcntl commands that fold to F_DUPFD under two '
                     'platform models; lazily opened streams used only inside their with block; constant-bounded reads in every streaming loop.'),
        rule_text='obligation = (rule, function, site); non-trivial = path query or folded constant bound',
        assumptions=['CPython closes a file object when close() is called; garbage collection is not relied upon', 'platform models: Linux (this interpreter) and macOS (F_FULLFSYNC=51)'],
        not_decided='measured peak memory and the descriptor census at run time.')
