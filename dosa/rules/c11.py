"""C11 -- deletion removes exactly the requested objects; repack reclaims their space (DESIGN 5, C11)."""
from __future__ import annotations

import ast

from ..cfg import Policy
from ..effects import last_assignment, sql_statement
from ..kinds import alts
from ..loader import ancestors, norm, walk_local
from ..report import Check
from ..solver import Machine, Violation
from ..solver import run as solve
from .common import areas, in_area, is_tmp_pack, origin, root_name, strip_not, write_policy
from .machines import path_operand, loose_key_expr

DELETE = 'container:Container.delete_objects'
REPACK = 'container:Container.repack_pack'


class CursorMachine(Machine):
    """A result cursor of the operation session must be consumed before another statement that modifies the table runs on
    the same connection: rows fetched lazily after a DELETE/UPDATE/INSERT are computed against the modified table.
    State = frozenset of (var, 'open' | 'stale')."""

    def __init__(self, ctx, g, rule):
        self.E = ctx.effects
        self.rule = rule
        self.top = g.top
        self.cursors = 0

    def initial(self, g):
        return [frozenset()]

    def transfer(self, node, st, g):
        s = dict(st)
        viol = []
        a = node.ast
        if node.frame is not self.top:
            return [st]
        effs = self.E.of(node)
        if any(e[0] in ('DB_DELETE', 'DB_UPDATE', 'DB_INSERT') for e in effs):
            for k in list(s):
                if s[k] == 'open':
                    s[k] = 'stale'
        if node.kind == 'stmt' and isinstance(a, ast.Assign) and isinstance(a.targets[0], ast.Name):
            v = a.value
            name = a.targets[0].id
            if isinstance(v, ast.Name) and v.id in s:
                s[name] = s[v.id]  # plain alias of a cursor: still unconsumed
                return [frozenset(s.items())]
            # uses of cursor variables inside the value (comprehension over it, list(it), it.all())
            for x in ast.walk(v):
                if isinstance(x, ast.Name) and x.id in s and x.id != name:
                    if s[x.id] == 'stale':
                        viol.append(Violation(self.rule, node, st, f'the result cursor `{x.id}` is consumed after a DELETE/UPDATE/INSERT ran on the same connection: the rows it yields are '
                                              'evaluated against the modified table (the keys reported as deleted are incomplete)'))
                    s.pop(x.id, None)
            if isinstance(v, ast.Call) and isinstance(v.func, ast.Attribute) and v.func.attr in ('execute', 'scalars') and any(e[0] == 'DB_QUERY' for e in self._effects_of_call(v, node, g)):
                s[name] = 'open'
                self.cursors += 1
            else:
                s.pop(name, None) if name in s and not any(isinstance(x, ast.Name) and x.id == name for x in ast.walk(v)) else None
        elif node.kind in ('call', 'loop', 'stmt', 'return') and a is not None:
            tgt = a.iter if isinstance(a, (ast.For, ast.comprehension)) else a
            if node.kind == 'call' or node.kind == 'return' or isinstance(a, (ast.For, ast.comprehension)):
                for x in ast.walk(tgt) if isinstance(tgt, ast.AST) else []:
                    if isinstance(x, ast.Name) and x.id in s and isinstance(getattr(x, 'ctx', None), ast.Load):
                        if s[x.id] == 'stale':
                            viol.append(Violation(self.rule, node, st, f'the result cursor `{x.id}` is consumed after a DELETE/UPDATE/INSERT ran on the same connection: the rows it yields are '
                                                  'evaluated against the modified table (the keys reported as deleted are incomplete)'))
                        s.pop(x.id, None)
        return [frozenset(s.items())] + viol

    def _effects_of_call(self, call, node, g):
        for n in g.nodes:
            if n.kind == 'call' and n.ast is call:
                return self.E.of(n)
        return []


class TmpFreshMachine(Machine):
    """The temporary pack is opened for appending only after its absence was asserted."""

    def __init__(self, ctx, g, rule):
        self.E, self.K, self.prog = ctx.effects, ctx.kinds, ctx.prog
        self.rule = rule
        self.opens = 0

    def initial(self, g):
        return [(False,)]

    def edge_state(self, edge, st, node, g):
        c = edge.cond
        if c is not None:
            e, pol = strip_not(c[0], c[2])
            if isinstance(e, ast.Call) and isinstance(e.func, ast.Attribute) and e.func.attr == 'exists':
                k = self.K.kind(e.func.value, c[1])
                if k[0] in ('path', 'join') and is_tmp_pack(self.K, k, self.prog) and not pol:
                    return (True,)
        return st

    def transfer(self, node, st, g):
        viol = []
        for e in self.E.of(node):
            if e[0] == 'OPEN' and is_tmp_pack(self.K, e[1], self.prog) and 'a' in (e[2] or ''):
                self.opens += 1
                if not st[0]:
                    viol.append(Violation(self.rule, node, st, 'the temporary pack is opened in append mode without first establishing that the file does not exist: a leftover of an aborted '
                                          'repack would be prepended to the new pack (unreferenced bytes, incl. deleted objects, survive the repack)'))
        return [st] + viol


def run(ctx, host=None):
    chk = host.sub('C11') if host is not None else Check('C11', ctx)
    prog, K, E = ctx.prog, ctx.kinds, ctx.effects
    R1 = chk.rule('C11.R1', 'delete: every unlink / DELETE is keyed by the requested keys; every chunk of the request reaches SELECT and DELETE', 4)
    R2 = chk.rule('C11.R2', 'delete: returned keys = loose files actually removed + index rows found, fetched before the rows are deleted', 2)
    R3 = chk.rule('C11.R3', 'repack copies only referenced ranges, in offset order, into a pack that is asserted fresh', 4)
    R4 = chk.rule('C11.R4', 'packs without live objects are removed; repack() visits every pack', 2)
    pol = write_policy(depth=2)
    fn = prog.fn(DELETE)
    param = fn.params[0]
    fr = K.top_frame(fn)

    # ---------------------------------------------------------------- R1
    from .common import one_shot_reuse
    one_shot_reuse(ctx, chk, R1, [fn, prog.fn('container:Container.clean_storage')], label='deletion')
    g = ctx.icfg(DELETE, {}, pol, key='wp2')
    reach = g.reachable(('n',))
    nun = 0
    for n in g.nodes:
        if n.id not in reach:
            continue
        for e in E.of(n):
            if e[0] in ('SESSION_RESET', 'DB_ROLLBACK') and (e[0] == 'DB_ROLLBACK' or e[1] == 'op'):
                chk.bad(R1, DELETE, n.text(100), 'delete_objects drops the pending transaction of the handle (session closed / rolled back): index rows that an earlier direct-to-pack call staged with '
                        'do_commit=False vanish although they were not among the requested keys -- "leaves every other object readable and unchanged" -- and the next repack erases their bytes', where=n.where)
            if e[0] in ('RMDIR', 'RMTREE'):
                chk.bad(R1, DELETE, n.text(100), 'delete_objects removes a directory of the container: with loose_prefix_len=0 the parent of a loose file is loose/ itself, so deleting the last loose object '
                        'would remove the folder every other operation relies on', where=n.where)
            if e[0] == 'UNLINK':
                nun += 1
                ar = areas(K, e[1])
                if ar == {'loose'}:
                    ke = loose_key_expr(K, path_operand(n.ast), n.frame)
                    srcs = origin(K, ke[0], ke[1]) if ke else []
                    okp = bool(srcs) and all(root_name(o)[0] == 'param' and root_name(o)[2] == param for o in srcs)
                    if okp:
                        chk.ok(R1, DELETE, n.text(90), detail=f'key is an element of the parameter `{param}`')
                    else:
                        chk.bad(R1, DELETE, n.text(120), f'a loose file is removed whose key does not come (only) from the requested keys `{param}`', where=n.where)
                elif ar == {'duplicates'}:
                    # name must come from a listing filtered by startswith(f'{hashkey}.')
                    filt = [c for c in walk_local(fn.node) if isinstance(c, ast.Call) and isinstance(c.func, ast.Attribute) and c.func.attr == 'startswith']
                    okf = False
                    for c in filt:
                        a0 = c.args[0] if c.args else None
                        if isinstance(a0, ast.JoinedStr) and len(a0.values) == 2 and isinstance(a0.values[0], ast.FormattedValue) and isinstance(a0.values[1], ast.Constant) and a0.values[1].value == '.':
                            src = origin(K, a0.values[0].value, fr)
                            okf = all(root_name(o)[0] == 'param' and root_name(o)[2] == param for o in src)
                    if okf:
                        chk.ok(R1, DELETE, n.text(90), detail="duplicate files selected by startswith(f'{key}.') for a requested key")
                    else:
                        chk.bad(R1, DELETE, n.text(120), "duplicate files are not selected by the exact prefix `<requested key>.`: duplicates of another object could be removed", where=n.where)
                else:
                    chk.bad(R1, DELETE, n.text(120), f'delete_objects removes a file in {sorted(ar)}', where=n.where)
    chk.require(nun >= 2, f'delete_objects: expected unlink of duplicates and of the loose file, found {nun}')
    # chunk loop
    loops = [n for n in walk_local(fn.node) if isinstance(n, ast.For) and isinstance(n.iter, ast.Call) and norm(n.iter.func) == 'chunk_iterator']
    chk.require(loops, 'delete_objects: chunk loop not found')
    lp = loops[0]
    it_ok = lp.iter.args and isinstance(lp.iter.args[0], ast.Name) and lp.iter.args[0].id == param
    size = next((k.value for k in lp.iter.keywords if k.arg == 'size'), lp.iter.args[1] if len(lp.iter.args) > 1 else None)
    from ..resolve import fold
    sv = fold(prog, size, fn) if size is not None else None
    chunk = lp.target.id if isinstance(lp.target, ast.Name) else None
    ins = [c for c in ast.walk(lp) if isinstance(c, ast.Call) and isinstance(c.func, ast.Attribute) and c.func.attr == 'in_']
    sel = [c for c in ins if 'select' in norm(_stmt_of(c))]
    dele = [c for c in ins if 'delete' in norm(_stmt_of(c))]
    if it_ok and isinstance(sv, int) and sv <= 999 and sel and dele and all(c.args and isinstance(c.args[0], ast.Name) and c.args[0].id == chunk for c in ins):
        chk.ok(R1, DELETE, norm(lp.iter), detail=f'every chunk (size {sv} <= 999) of the request is used by both the SELECT and the DELETE')
    else:
        chk.bad(R1, DELETE, norm(lp.iter), f'the chunk loop does not feed every chunk of `{param}` to both the SELECT and the DELETE (iter ok={it_ok}, size={sv}, select={len(sel)}, delete={len(dele)})',
                where=f'{fn.module.relpath}:{lp.lineno}')
    # no early exit: every path through the loop body runs the DELETE, and nothing leaves the loop before the iterator is exhausted
    from .c01 import body_paths
    exits = [x for x in ast.walk(lp) if isinstance(x, (ast.Break, ast.Return)) or (isinstance(x, ast.Continue))]
    own_exits = []
    for x in exits:
        # a break/continue inside a nested loop belongs to that loop
        par = getattr(x, '_parent', None)
        inner = False
        while par is not None and par is not lp:
            if isinstance(par, (ast.For, ast.While)) and not isinstance(x, ast.Return):
                inner = True
            par = getattr(par, '_parent', None)
        if not inner:
            own_exits.append(x)
    all_delete = True
    for path in body_paths(lp.body):
        if not any(isinstance(st_, ast.AST) and any(c is d for d in dele for c in ast.walk(st_)) or
                   (isinstance(st_, ast.AST) and any(isinstance(c, ast.Call) and isinstance(c.func, ast.Attribute) and c.func.attr == 'execute' for c in ast.walk(st_)) and
                    any(isinstance(n2, ast.Name) and isinstance(last_assignment(n2.id, fn, getattr(st_, 'lineno', 0)), ast.Call) and 'delete' in norm(last_assignment(n2.id, fn, getattr(st_, 'lineno', 0)))
                        for c in ast.walk(st_) if isinstance(c, ast.Call) for n2 in c.args if isinstance(n2, ast.Name)))
                   for st_ in path):
            all_delete = False
    if not own_exits and all_delete:
        chk.ok(R1, DELETE, 'chunk loop exits', detail='no break/return/continue: the loop runs the DELETE for every chunk of the request')
    else:
        x = own_exits[0] if own_exits else lp
        chk.bad(R1, DELETE, f'{type(x).__name__.lower()} in the chunk loop', 'the chunk loop can be left (or an iteration cut short) before every chunk of the request reached the DELETE: '
                'requested keys in the remaining chunks keep their index rows although they are reported/assumed deleted', where=f'{fn.module.relpath}:{x.lineno}')
    dl = [e for n in g.nodes if n.id in reach for e in E.of(n) if e[0] == 'DB_DELETE']
    if len(dl) == 1 and dl[0][2].get('where') and all('in_(' in w for w in dl[0][2]['where']):
        chk.ok(R1, DELETE, f"DELETE WHERE {dl[0][2]['where']}", detail='rows are deleted only by membership in the requested chunk')
    else:
        chk.bad(R1, DELETE, 'DELETE statement', f'expected exactly one DELETE restricted by hashkey IN (chunk), found {[d[2].get("where") for d in dl]}', where=f'{fn.module.relpath}:{fn.lineno}')

    # ---------------------------------------------------------------- R2
    m = CursorMachine(ctx, g, 'C11.R2')
    viols, st = solve(g, m)
    chk.crash_points += st['pairs']
    chk.specialisations += 1
    for v in viols:
        chk.bad(R2, DELETE, v.node.text(120), v.msg, where=v.node.where, witness=v.witness)
    if not viols:
        chk.ok(R2, DELETE, f'{m.cursors} result cursor(s)', detail='consumed before the DELETE of the same chunk runs')
    rets = [n for n in walk_local(fn.node) if isinstance(n, ast.Return)]
    rv = rets[-1].value
    names = {x.id for x in ast.walk(rv) if isinstance(x, ast.Name)} - {'list', 'set', 'sorted'}
    okr = param not in names and len(names) == 2
    detail = []
    for nm in sorted(names):
        adds = [c for c in walk_local(fn.node) if isinstance(c, ast.Call) and isinstance(c.func, ast.Attribute) and isinstance(c.func.value, ast.Name) and c.func.value.id == nm and c.func.attr in ('add', 'update')]
        for c in adds:
            if c.func.attr == 'add':
                # inside the try that unlinks the loose file, after the unlink
                tr = c
                while tr is not None and not isinstance(tr, ast.Try):
                    tr = getattr(tr, '_parent', None)
                in_try_body = tr is not None and any(c is x for s_ in tr.body for x in ast.walk(s_))
                in_try_else = tr is not None and any(c is x for s_ in tr.orelse for x in ast.walk(s_))
                rm = [x for s_ in (tr.body if tr else []) for x in ast.walk(s_) if isinstance(x, ast.Call) and (norm(x.func) in ('os.remove', 'os.unlink')
                                                                                                              or (isinstance(x.func, ast.Attribute) and x.func.attr == 'unlink' and not x.args))]
                if (in_try_body and rm and rm[0].lineno < c.lineno) or (in_try_else and rm):
                    detail.append(f'{nm}: added after a successful unlink')
                else:
                    okr = False
            else:
                src = c.args[0] if c.args else None
                o = [root_name(x) for x in origin(K, src, fr)] if src is not None else []
                v0 = last_assignment(src.id, fn, c.lineno) if isinstance(src, ast.Name) else src
                # the update's argument is built from the rows of the SELECT of this chunk (def-use: a comprehension over a name assigned from execute(select ...))
                from_rows = False
                if v0 is not None:
                    for x in ast.walk(v0):
                        if isinstance(x, ast.comprehension):
                            base = next((y for y in ast.walk(x.iter) if isinstance(y, ast.Name)), None)
                            if 'select' in norm(x.iter) and 'execute' in norm(x.iter):
                                from_rows = True
                            elif base is not None:
                                rv = last_assignment(base.id, fn, c.lineno)
                                if isinstance(rv, ast.Call) and 'execute' in norm(rv) and 'select' in norm(rv):
                                    from_rows = True
                if from_rows:
                    detail.append(f'{nm}: keys of the rows selected for the chunk')
                else:
                    okr = False
    if okr and len(detail) >= 2:
        chk.ok(R2, DELETE, norm(rets[-1]), detail='; '.join(detail))
    else:
        chk.bad(R2, DELETE, norm(rets[-1]), f'the returned keys are not exactly (loose files removed) U (index rows found): {detail}', where=f'{fn.module.relpath}:{rets[-1].lineno}')

    # ---------------------------------------------------------------- R3
    rp = prog.fn(REPACK)
    g2 = ctx.icfg(REPACK, {}, write_policy(depth=3), key='wp3')
    m2 = TmpFreshMachine(ctx, g2, 'C11.R3')
    viols, st = solve(g2, m2)
    chk.crash_points += st['pairs']
    chk.specialisations += 1
    chk.require(m2.opens >= 1, 'repack_pack: opening of the temporary pack not found')
    for v in viols:
        chk.bad(R3, REPACK, v.node.text(100), v.msg, where=v.node.where, witness=v.witness)
    if not viols:
        chk.ok(R3, REPACK, 'assert not <tmp pack>.exists()', detail='dominates the append-open of the temporary pack')
    loop = next((n for n in walk_local(rp.node) if isinstance(n, ast.For) and isinstance(n.iter, ast.Call) and norm(n.iter.func).endswith('.execute')), None)
    chk.require(loop is not None, 'repack_pack: copy loop over the index rows not found')
    info = sql_statement(prog, loop.iter.args[0], rp, loop.lineno)
    chk.require(info is not None and info['op'] == 'SELECT', 'repack_pack: SELECT feeding the copy loop not recognised')
    cols = [c.split('.')[-1] for c in info['cols']]
    tvars = [e.id for e in loop.target.elts] if isinstance(loop.target, ast.Tuple) else []
    where_ok = any('pack_id == pack_id' in w.replace('Obj.', '') for w in info['where'])
    order_ok = [o.split('.')[-1] for o in info['order_by']] == ['offset']
    if where_ok and order_ok:
        chk.ok(R3, REPACK, f"SELECT {cols} WHERE {info['where']} ORDER BY {info['order_by']}", detail='only rows of this pack, in offset order')
    else:
        chk.bad(R3, REPACK, norm(loop.iter)[:100], f'the copy loop does not iterate exactly the rows of this pack in offset order (where={info["where"]}, order_by={info["order_by"]})', where=f'{rp.module.relpath}:{loop.lineno}')
    por = [c for c in ast.walk(loop) if isinstance(c, ast.Call) and norm(c.func) == 'PackedObjectReader']
    if len(por) == 1 and len(por[0].args) < 3 and por[0].keywords:
        # PackedObjectReader(fhandle=..., offset=..., length=...): read the three arguments by name
        kwn = {k.arg: k.value for k in por[0].keywords}
        full = list(por[0].args) + [kwn.get(nm) for nm in ('fhandle', 'offset', 'length')[len(por[0].args):]]
        if all(x is not None for x in full):
            por[0].args = full
            por[0].keywords = [k for k in por[0].keywords if k.arg not in ('fhandle', 'offset', 'length')]
    okpor = len(por) == 1 and len(por[0].args) == 3 and len(tvars) == len(cols)
    if okpor:
        o, l = por[0].args[1], por[0].args[2]
        okpor = isinstance(o, ast.Name) and isinstance(l, ast.Name) and cols[tvars.index(o.id)] == 'offset' and cols[tvars.index(l.id)] == 'length' if (isinstance(o, ast.Name) and isinstance(l, ast.Name) and o.id in tvars and l.id in tvars) else False
    if okpor:
        chk.ok(R3, REPACK, norm(por[0]), detail='each object is read through a reader bounded by its own row (offset, length): unreferenced bytes cannot be carried over')
    else:
        chk.bad(R3, REPACK, 'PackedObjectReader(read_pack, offset, length)', 'objects are not copied through a reader bounded by the offset/length columns of their own row', where=f'{rp.module.relpath}:{loop.lineno}')
    # the row variables are used in the role of their column (positional unpacking): should_compress gets the row's own flag/length/size
    var_of = dict(zip(cols, tvars)) if len(cols) == len(tvars) and len(set(tvars)) == len(tvars) else {}
    sc = [c for c in ast.walk(loop) if isinstance(c, ast.Call) and norm(c.func) == 'should_compress']
    roles_ok = bool(var_of) and len(sc) == 1
    if roles_ok:
        kws = {k.arg: norm(k.value) for k in sc[0].keywords}
        roles_ok = kws.get('source_compressed') == var_of.get('compressed') and kws.get('source_length') == var_of.get('length') and kws.get('source_size') == var_of.get('size')
    if roles_ok:
        chk.ok(R3, REPACK, f'{tvars} <- {cols}', detail='row variables are used in the role of the column at their position (reader bounds, should_compress arguments)')
    else:
        chk.bad(R3, REPACK, f'{tvars} <- {cols}', 'the row variables are not used in the role of the column they are unpacked from (compressed flag / length / size passed to should_compress)', where=f'{rp.module.relpath}:{loop.lineno}')

    # ---------------------------------------------------------------- R4
    early = None
    for n in walk_local(rp.node):
        if isinstance(n, ast.If) and isinstance(n.test, ast.UnaryOp) and isinstance(n.test.op, ast.Not) and isinstance(n.test.operand, ast.Name) and any(isinstance(x, ast.Return) for x in n.body):
            v = last_assignment(n.test.operand.id, rp, n.lineno)
            if v is not None and 'pack_id ==' in norm(v).replace('Obj.', ''):
                early = n
    if early is not None and any(isinstance(c, ast.Call) and (norm(c.func) in ('os.remove', 'os.unlink') or (isinstance(c.func, ast.Attribute) and c.func.attr == 'unlink' and not c.args)) for c in ast.walk(early)):
        chk.ok(R4, REPACK, norm(early.test), detail='a pack without index rows is unlinked')
    else:
        chk.bad(R4, REPACK, 'empty-pack branch', 'a pack file without live objects is no longer removed by repack', where=f'{rp.module.relpath}:{rp.lineno}')
    # ... and only such packs: the file under the pack's own name is removed only after an existence test over its rows said
    # "none" or after the commit that re-pointed them (state machine shared with C05.R4; only this clause is claimed here)
    from .machines import explore, report_violations
    from .repack import RepackMachine
    found, m = explore(ctx, chk, REPACK, {}, lambda g, c: RepackMachine(ctx, g, require_durable=False, rule='C11.R4', require_rewrite=True), write_policy(depth=5), 'wp5')
    found = [(v, c) for v, c in found if 'removed' in v.msg]
    report_violations(chk, REPACK, found)
    if not found:
        chk.ok(R4, REPACK, 'unlink of pack files', detail='a pack file is removed only when no committed row references it (existence query) or after its rows were re-pointed and committed')
    ra = prog.fn('container:Container.repack')
    lps = [n for n in walk_local(ra.node) if isinstance(n, ast.For)]
    uncond = False
    if lps:
        for i, st in enumerate(lps[0].body):
            if isinstance(st, ast.Expr) and isinstance(st.value, ast.Call) and norm(st.value.func) == 'self.repack_pack' and st.value.args and norm(st.value.args[0]) == norm(lps[0].target):
                uncond = not any(isinstance(x, (ast.Continue, ast.Break, ast.Return, ast.Raise)) for prev in lps[0].body[:i] for x in ast.walk(prev))
    if lps and norm(lps[0].iter) == 'self._list_packs()' and uncond:
        chk.ok(R4, ra.qualname, norm(lps[0].iter), detail='every existing pack is repacked, unconditionally')
    else:
        chk.bad(R4, ra.qualname, 'for pack_id in self._list_packs()', 'repack() no longer repacks every existing pack unconditionally (a pack skipped because of a lock file, a size test, ... keeps the bytes of deleted objects although repack() reports success)', where=f'{ra.module.relpath}:{ra.lineno}')

    # the listing repack() iterates over never yields the scratch id: an interrupted repack leaves that file behind, and repack_pack asserts on it
    lp = prog.fn('container:Container._list_packs')
    vcalls = [c for c in walk_local(lp.node) if isinstance(c, ast.Call) and norm(c.func).endswith('_is_valid_pack_id')]
    chk.require(vcalls, '_list_packs: no _is_valid_pack_id call found')
    loose_calls = [c for c in vcalls if len(c.args) > 1 or any(k.arg == 'allow_repack_pack' and not (isinstance(k.value, ast.Constant) and k.value.value is False) for k in c.keywords) or any(k.arg is None for k in c.keywords)]
    ys = [y for y in walk_local(lp.node) if isinstance(y, (ast.Yield, ast.YieldFrom))]
    guarded = all(any(isinstance(a, ast.If) and any(c in list(ast.walk(a.test)) for c in vcalls) for a in ancestors(y)) for y in ys) if ys else False
    if loose_calls:
        chk.bad(R4, lp.qualname, norm(loose_calls[0]), 'the pack listing accepts the scratch pack id of repack: after an interrupted repack the leftover scratch file is listed as a pack, '
                'and repack() then trips the assertion in repack_pack instead of reclaiming space (count/size reports include it too)', where=f'{lp.module.relpath}:{loose_calls[0].lineno}')
    elif not guarded:
        chk.bad(R4, lp.qualname, 'yield', 'a name is yielded by _list_packs without passing _is_valid_pack_id (lock files, the scratch pack of an interrupted repack)', where=f'{lp.module.relpath}:{lp.lineno}')
    else:
        chk.ok(R4, lp.qualname, norm(vcalls[0]), detail='only valid pack ids are listed; the repack scratch id is not one of them')

    # rules of other properties that are necessary conditions of this one too: a repack that records wrong ranges makes the other objects unreadable (C03)
    if host is None:
        from ..report import host_modules
        host_modules(chk, ctx, ['C03'])

    return chk.finish(
        explanation=('Static provenance and typestate rules for delete_objects and repack_pack: keys of every unlink/DELETE traced to the request parameter, the chunk loop feeds SELECT '
                     'and DELETE, a cursor typestate (result rows consumed before a modifying statement on the same connection), returned keys = removed loose files U selected '
                     'rows; repack iterates exactly the rows of the pack in offset order, reads each object through a reader bounded by its own row, into a temporary pack whose '
                     'absence is asserted before it is opened for appending; empty packs are unlinked and every pack is visited.'),
        rule_text='obligation = (rule, site); non-trivial = provenance / typestate query',
        assumptions=['SQLite evaluates a pending SELECT lazily against later modifications on the same connection (sqlite3 cursor semantics)'],
        not_decided='byte equality of the rewritten packs with the concatenation of live objects (values).')


def _stmt_of(n):
    while n is not None and not isinstance(n, ast.stmt):
        n = getattr(n, '_parent', None)
    return n
