"""C17 -- an I/O error in the middle of an operation leaves the store intact (DESIGN 5, C17).

Analysed on control-flow graphs WITH exception edges: any call may raise and control continues in the innermost
handler / finally / with-exit or leaves the operation.
"""
from __future__ import annotations

import ast
import builtins

from ..loader import norm, walk_local
from ..report import Check
from ..solver import run as solve
from .common import MUTATING, Summaries, write_policy
from .machines import LooseMachine, PackMachine, explore, report_violations
from .repack import RepackMachine

BROAD = {'OSError', 'IOError', 'EnvironmentError', 'Exception', 'BaseException', '<bare>',
         'OperationalError', 'SQLAlchemyError', 'DBAPIError', 'DatabaseError', 'IntegrityError', 'sqlite3.Error', 'Error'}
# (exception type, mutating effect) pairs that a handler may swallow: the failed call changed nothing and the handler
# continues with an equivalent outcome.  One line of reason each.
ALLOWED = {
    ('FileExistsError', 'MKDIR'),    # directory already there (concurrent creation)
    ('FileExistsError', 'RENAME'),   # Windows: destination appeared concurrently -> checksum check / duplicate copy
    ('FileNotFoundError', 'UNLINK'), # nothing to delete
}
# PermissionError (Windows: file locked by another process) is outside the property's fault model (OSError/EIO/ENOSPC
# on a call): its handlers are checked by R3 only (an object skipped because of it must not be staged/tracked).
OUTSIDE_FAULT_MODEL = {'PermissionError'}


# Closed table of the handlers that swallow PermissionError (Windows file locking) or a whole OSError: (function, effects guarded by the try
# body that matter) -> why continuing is harmless.  A new swallowing handler of these types is reported until it is reviewed and tabled.
PERMISSION_HANDLERS = {
    ('container:Container.is_initialised', 'OPEN'): 'an unreadable configuration means "not initialised" (init then refuses because the folder is not empty)',
    ('container:Container.pack_all_loose', 'H_WRITE'): 'a loose file locked by its writer is skipped BEFORE its row is staged or tracked (C05/C17 R3 check exactly that); it is packed by a later call',
    ('container:Container._clean_loose_objects', 'UNLINK'): 'a loose file still open elsewhere stays; its object is already committed in the index; clean_storage removes it later',
    ('container:Container.clean_storage', 'UNLINK'): 'same: the packed copy is committed, the loose copy is removed by a later clean',
    ('utils:ObjectWriter.__exit__', 'OPEN'): 'the existing copy cannot be read: the new bytes are kept as a duplicate that clean_storage verifies and restores',
    ('utils:ObjectWriter.__exit__', 'REPLACE'): 'the corrupt existing copy cannot be replaced right now: the new bytes are kept as a duplicate',
}


def handler_types(h):
    if h.type is None:
        return ['<bare>']
    ts = h.type.elts if isinstance(h.type, ast.Tuple) else [h.type]
    out = []
    for t in ts:
        try:
            out.append(ast.unparse(t).split('.')[-1] if not ast.unparse(t).startswith('sqlite3') else ast.unparse(t))
        except Exception:
            out.append('?')
    return out


def always_raises(stmts):
    if not stmts:
        return False
    last = stmts[-1]
    if isinstance(last, ast.Raise):
        return True
    if isinstance(last, ast.If):
        return always_raises(last.body) and bool(last.orelse) and always_raises(last.orelse)
    if isinstance(last, (ast.With,)):
        return always_raises(last.body)
    return False


def run(ctx, host=None):
    chk = host.sub('C17') if host is not None else Check('C17', ctx)
    prog, K, E = ctx.prog, ctx.kinds, ctx.effects
    R2 = chk.rule('C17.R2', 'no handler swallows a generic I/O / database error around a mutating effect (table of allowed idioms)', 20)
    R3 = chk.rule('C17.R3', 'pack/loose/repack invariants of C05 also hold along exception paths; no row staged/tracked for an interrupted object', 7)
    R4 = chk.rule('C17.R4', 'HashWriterWrapper.write verifies the stream position before writing and hashes after the write', 1)
    S = Summaries(ctx)

    # ---------------------------------------------------------------- R2
    nh = 0
    for f in prog.all_functions():
        if isinstance(f.node, ast.Lambda):
            continue
        for n in walk_local(f.node):
            if not isinstance(n, ast.Try):
                continue
            body_eff = S.effects_of_stmts(n.body, f)
            # `with open(..., 'w')` etc. inside the body: opening for write is mutating too
            muts = sorted({e[0] for e in body_eff if e[0] in MUTATING} | {'OPEN_W' for e in body_eff if False})
            for h in n.handlers:
                nh += 1
                types = handler_types(h)
                swallow = not always_raises(h.body)
                construct = f'try@{norm(n.body[0])[:60]} except {", ".join(types)}'
                if not swallow:
                    chk.ok(R2, f.qualname, construct, detail='handler always re-raises', nontrivial=False)
                    continue
                badpairs = []
                for t in types:
                    if t in OUTSIDE_FAULT_MODEL:
                        continue
                    for m in muts:
                        if t in BROAD or (isinstance(getattr(builtins, t, None), type) and issubclass(getattr(builtins, t), OSError)
                                          and (t, m) not in ALLOWED):
                            badpairs.append((t, m))
                if badpairs:
                    chk.bad(R2, f.qualname, construct,
                            f'handler swallows {sorted({t for t, _ in badpairs})} raised around mutating effect(s) {sorted({m for _, m in badpairs})} '
                            'and continues: a failed write/commit would go unnoticed', where=f'{f.module.relpath}:{h.lineno}')
                else:
                    chk.ok(R2, f.qualname, construct, detail=f'types {types}; mutating effects in try body: {muts or "none"}')
    chk.require(nh >= 20, f'expected at least 20 except clauses in the package, found {nh}')
    # closed table of PermissionError / OSError swallowing handlers
    R2p = chk.rule('C17.R2p', 'every handler that swallows PermissionError or a whole OSError is one of the reviewed sites (closed table)', 5)
    for f in prog.all_functions():
        if isinstance(f.node, ast.Lambda) or f.module.name.endswith(('backup_utils', 'cli')):
            continue
        for n in walk_local(f.node):
            if not isinstance(n, ast.Try):
                continue
            for h in n.handlers:
                ts = handler_types(h)
                if not ({'PermissionError', 'OSError', 'IOError', 'EnvironmentError'} & set(ts)) or always_raises(h.body):
                    continue
                effs = {e[0] for e in S.effects_of_stmts(n.body, f)}
                keys = [(f.qualname, e0) for e0 in sorted(effs) if (f.qualname, e0) in PERMISSION_HANDLERS]
                if keys:
                    chk.ok(R2p, f.qualname, f'except {", ".join(ts)} around {keys[0][1]}', detail=PERMISSION_HANDLERS[keys[0]])
                else:
                    chk.bad(R2p, f.qualname, f'except {", ".join(ts)} around {sorted(effs)[:5]}', 'this handler swallows PermissionError / OSError at a site that is not in the reviewed table: the operation continues '
                            'as if the guarded step had succeeded (or had nothing to do), which is only harmless at the tabled sites', where=f'{f.module.relpath}:{h.lineno}')

    # ---------------------------------------------------------------- R3
    pol = write_policy(depth=5)
    from .common import pack_writing_entries
    entries = pack_writing_entries(ctx)
    chk.require(len(entries) >= 5, f'expected >= 5 pack-writing entry points, found {entries}')
    for q in entries:
        def mk(g, consts, _q=q):
            ce = ('do_commit' not in prog.fn(_q).params) or consts.get('do_commit') is True
            return PackMachine(ctx, g, require_durable=False, commit_expected=ce, exc=True, rule_flush='C17.R3', rule_unlink='C17.R3')
        fixed = {}
        if 'do_commit' in prog.fn(q).params and not ctx.thorough:
            fixed['do_commit'] = True
        found, m = explore(ctx, chk, q, fixed, mk, pol, 'wp5')
        report_violations(chk, q, found)
        chk.require(m.sites.insert_nodes and m.sites.stage_nodes, f'{q}: no INSERT/staging site found')
        if not found:
            chk.ok(R3, q, 'PackMachine on the exception graph', detail='commit/unlink guards hold on handler and finally paths; no interrupted object is staged')
    q = 'container:Container.add_streamed_object'
    found, m = explore(ctx, chk, q, {}, lambda g, c: LooseMachine(ctx, g, require_durable=False, rule_close='C17.R3', exc=True), pol, 'wp5')
    report_violations(chk, q, found)
    if not found:
        chk.ok(R3, q, 'LooseMachine on the exception graph', detail='no publish of an unflushed/unclosed sandbox file on any exception path')
    q = 'container:Container.repack_pack'
    found, m = explore(ctx, chk, q, {}, lambda g, c: RepackMachine(ctx, g, require_durable=False, rule='C17.R3', exc=True), pol, 'wp5')
    report_violations(chk, q, found)
    if not found:
        chk.ok(R3, q, 'RepackMachine on the exception graph', detail='old pack never removed before the re-pointing commit on any exception path')

    # index ranges along exception paths: an object whose write was interrupted by a tolerated exception leaves bytes in the pack; the next
    # object's offset/length must still be taken from the handle (RangeMachine of C03.R1 runs on the exception graph; reported here as C17.R3)
    from ..solver import run as solve
    from .c03 import RangeMachine
    from .common import specialisations
    for q in ('container:Container.pack_all_loose', 'container:Container.add_streamed_objects_to_pack'):
        fnq = prog.fn(q)
        combos = [{}] if q.endswith('pack_all_loose') and not ctx.thorough else (
            list(specialisations(fnq, {}, free={'do_fsync', 'do_commit', 'open_streams', 'compress'})) if not ctx.thorough else list(specialisations(fnq, {})))
        badr = False
        for consts in combos:
            g = ctx.icfg(q, consts, pol, key='wp5')
            m = RangeMachine(ctx, g, 'C17.R3')
            viols, st = solve(g, m)
            chk.crash_points += st['pairs']
            chk.specialisations += 1
            for v in viols:
                if 'key' in v.msg and 'offset' not in v.msg:
                    continue
                badr = True
                chk.bad(R3, q, v.node.text(120), v.msg + f' [flags {consts}]', where=v.node.where, witness=v.witness)
        if not badr:
            chk.ok(R3, q, f'RangeMachine on the exception graph, {len(combos)} flag combination(s)', detail='offset/length of every staged row are taken from the handle after any interrupted write', evals=len(combos))

    # ---------------------------------------------------------------- R4
    w = prog.fn('utils:HashWriterWrapper.write')
    calls = S.calls(w)
    writes = [n for n, cal, effs in calls if any(e[0] == 'H_WRITE' for e in effs)]
    chk.require(len(writes) == 1, f'HashWriterWrapper.write: expected exactly one write to the wrapped stream, found {len(writes)}')
    wcall = writes[0]
    guard = None
    for st in w.node.body:
        if st.lineno >= wcall.lineno:
            break
        test = st.test if isinstance(st, (ast.Assert, ast.If)) else None
        if test is not None:
            txt = norm(test)
            if '_position' in txt and '.tell()' in txt and isinstance(test, ast.Compare):
                if isinstance(st, ast.Assert) or always_raises(st.body):
                    guard = st
    hash_after = [n for n in walk_local(w.node) if isinstance(n, ast.Call) and isinstance(n.func, ast.Attribute) and n.func.attr == 'update' and n.lineno > wcall.lineno]
    pos_after = [n for n in walk_local(w.node) if isinstance(n, ast.AugAssign) and '_position' in norm(n.target) and n.lineno > wcall.lineno]
    if guard is None:
        chk.bad(R4, w.qualname, norm(wcall), 'the position check (stored position == stream.tell()) no longer precedes the write: after a failed partial write the hash and the file content can diverge silently',
                where=f'{w.module.relpath}:{wcall.lineno}')
    elif not hash_after or not pos_after:
        chk.bad(R4, w.qualname, norm(wcall), 'hash update / position update must follow the write (so that a failed write leaves them untouched)',
                where=f'{w.module.relpath}:{wcall.lineno}')
    else:
        chk.ok(R4, w.qualname, norm(guard)[:100], detail='position check dominates the write; position and hash updated after it')

    # ---------------------------------------------------------------- R5: context managers never swallow the error that interrupts their block
    R5 = chk.rule('C17.R5', 'no context manager of the package suppresses exceptions: every __exit__ returns None/False; no @contextmanager generator swallows around its yield', 5)
    nexit = 0
    for f in prog.all_functions():
        if isinstance(f.node, ast.Lambda):
            continue
        if f.name == '__exit__' and f.cls is not None:
            nexit += 1
            rets = [r for r in walk_local(f.node) if isinstance(r, ast.Return) and r.value is not None and not (isinstance(r.value, ast.Constant) and r.value.value in (None, False))]
            if rets:
                chk.bad(R5, f.qualname, norm(rets[0])[:90], f'`__exit__` returns `{norm(rets[0].value)[:50]}`: a true value tells Python to swallow the exception raised inside the `with` block, so an I/O error in '
                        'the middle of a write is silently dropped and the operation goes on to commit a row for an object that was only partly written', where=f'{f.module.relpath}:{rets[0].lineno}')
            else:
                chk.ok(R5, f.qualname, 'return value of __exit__', detail='None / False on every path: exceptions propagate', nontrivial=False)
        elif f.is_contextmanager:
            nexit += 1
            badh = None
            for tr in [n for n in walk_local(f.node) if isinstance(n, ast.Try)]:
                if not any(isinstance(x, (ast.Yield, ast.YieldFrom)) for b in tr.body for x in ast.walk(b)):
                    continue
                for h in tr.handlers:
                    if not any(isinstance(x, ast.Raise) for x in ast.walk(ast.Module(body=h.body, type_ignores=[]))):
                        badh = h
            if badh is not None:
                chk.bad(R5, f.qualname, f'except {norm(badh.type) if badh.type is not None else ""}: (no re-raise) around the yield', 'this context manager catches what its `with` block raises and does not re-raise: '
                        'the error that interrupted the block is swallowed', where=f'{f.module.relpath}:{badh.lineno}')
            else:
                chk.ok(R5, f.qualname, 'handlers around the yield', detail='none, or all re-raise', nontrivial=False)
    chk.require(nexit >= 5, f'expected >= 5 context managers (__exit__ methods / @contextmanager functions) in the package, found {nexit}')

    # rules of other properties that are necessary conditions of this one too: recovery after a fault assumes packs are append-only and only repack removes pack files (C13)
    if host is None:
        from ..report import host_modules
        host_modules(chk, ctx, ['C13', 'C05'])

    return chk.finish(
        explanation=('Static analysis on control-flow graphs with exception edges from every call/raise/assert to the innermost handler, '
                     'finally, with-exit or exceptional exit: (R2) an error-discipline table over every except clause of the package: no handler '
                     'that catches a generic I/O or database error around a mutating effect may continue normally; (R3) the C05 typestate '
                     'machines re-run on the exception graph, plus "no index row is staged or tracked for an object whose processing was '
                     'interrupted by a swallowed exception"; (R4) the stated belief in HashWriterWrapper.write is kept as a check.'),
        rule_text='obligation = except clause (R2) / (entry point, specialisation) on the exception graph (R3); non-trivial = decided by effect summaries or a path query',
        assumptions=['fault model: a single call raises OSError/OperationalError; PermissionError (Windows file locking) handlers are outside it and only checked by R3',
                     'stale lock files and sandbox litter are tolerated by the property and not checked', 'an interrupted repack is the documented exception'],
        not_decided='behaviour of the real calls under injected faults and that a rerun succeeds; only the shape of error handling and of effect ordering on exception paths.')
