"""C01 -- content-addressed round trip on every write path (DESIGN 5, C01).

Decides the structural clauses (tee loops, key provenance, configuration parametricity, writer/reader agreement); the
value-level arithmetic of hashing/zlib/slicing is not decided.
"""
from __future__ import annotations

import ast

from ..cfg import Policy
from ..effects import last_assignment, sql_statement
from ..kinds import alts
from ..loader import norm, walk_local
from ..report import Check
from ..resolve import UNKNOWN, fold
from ..solver import run as solve
from .c09 import IterMachine
from .common import Summaries, areas, specialisations, write_policy

CONFIG_SINKS = {
    'utils:get_hash_cls': (0, 'hash_type'), 'utils:compute_hash_and_size': (1, 'hash_type'), 'utils:_compute_hash_for_file': (1, 'hash_type'),
    'utils:HashWriterWrapper': (1, 'hash_type'), 'utils:get_compressobj_instance': (0, 'algorithm'), 'utils:get_stream_decompresser': (0, 'algorithm'),
    'utils:ObjectWriter': (4, 'hash_type'), 'utils:is_known_hash': (0, 'hash_type'),
}
CONFIG_EXEMPT = {
    ('utils:estimate_compression', 'zlib+1'): 'sampling compressor of the AUTO heuristic: its output is discarded except for its length',
}
EMPTY_TESTS = ('not {c}', "{c} == b''", '{c} == b""', 'len({c}) == 0', 'not len({c})')


def is_empty_test(test, var):
    t = norm(test)
    return any(t == p.format(c=var) for p in EMPTY_TESTS)


def loop_reads(loop):
    """[(assign stmt, var, read call)] for `var = X.read(n)` directly in the loop body."""
    out = []
    for st in loop.body:
        if isinstance(st, ast.Assign) and len(st.targets) == 1 and isinstance(st.targets[0], ast.Name) and isinstance(st.value, ast.Call) \
                and isinstance(st.value.func, ast.Attribute) and st.value.func.attr == 'read':
            out.append((st, st.targets[0].id, st.value))
    return out


def body_paths(stmts):
    """All paths through a statement list as lists of simple statements (If expanded; break/continue/return end a path)."""
    paths = [[]]
    for st in stmts:
        new = []
        for p in paths:
            if p and isinstance(p[-1], (ast.Break, ast.Continue, ast.Return, ast.Raise)):
                new.append(p)
                continue
            if isinstance(st, ast.If):
                for sub in body_paths(st.body):
                    new.append(p + [('test', st.test, True)] + sub)
                for sub in (body_paths(st.orelse) if st.orelse else [[]]):
                    new.append(p + [('test', st.test, False)] + sub)
            else:
                new.append(p + [st])
        paths = new
    return paths


def uses_in(st, var):
    return [x for x in ast.walk(st) if isinstance(x, ast.Name) and x.id == var] if isinstance(st, ast.AST) else []


def reader_wrap_sites(ctx, chk, R4):
    """Every PackedObjectReader construction site in container.py: offset/length of the row, and the decompresser wraps the reader iff the
    truthiness of the row's compressed flag (shared by C01.R4 and C10.R2)."""
    prog = ctx.prog
    cont = prog.modules['container']
    nsites = 0
    for f in prog.all_functions():
        if f.module is not cont or isinstance(f.node, ast.Lambda):
            continue
        for n in walk_local(f.node):
            if isinstance(n, ast.Call) and norm(n.func) == 'PackedObjectReader':
                nsites += 1
                st = n
                while not isinstance(st, ast.stmt):
                    st = st._parent
                tgt = st.targets[0] if isinstance(st, ast.Assign) else getattr(st, 'target', None)
                var = norm(tgt) if tgt is not None else None
                blk = st._parent
                body = next((getattr(blk, a) for a in ('body', 'orelse', 'finalbody') if isinstance(getattr(blk, a, None), list) and st in getattr(blk, a)), [])
                after = body[body.index(st) + 1:] if st in body else []
                wrap = None
                for s2 in after:
                    for x in ast.walk(s2):
                        # the innermost `if` whose own arm holds the wrapping assignment
                        if isinstance(x, ast.If) and any(isinstance(a, ast.Assign) and norm(a.targets[0]) == var and '_get_stream_decompresser()' in norm(a.value) for a in x.body):
                            wrap = x
                            break
                    if wrap is not None:
                        break
                # arguments: offset / length of the same row (roles by attribute name of the row object / by the column a loop variable was unpacked from)
                from .common import field_role
                kwn = {k.arg: k.value for k in n.keywords}
                offe = kwn.get('offset', n.args[1] if len(n.args) > 1 else None)
                lne = kwn.get('length', n.args[2] if len(n.args) > 2 else None)
                off, ln = norm(offe) if offe is not None else '', norm(lne) if lne is not None else ''
                if field_role(prog, f, offe, n) != 'offset' or field_role(prog, f, lne, n) != 'length':
                    chk.bad(R4, f.qualname, norm(n)[:100], f'PackedObjectReader is constructed with offset=`{off}`, length=`{ln}`: not the offset/length columns of the row', where=f'{f.module.relpath}:{n.lineno}')
                    continue
                if wrap is None:
                    chk.bad(R4, f.qualname, norm(n)[:100], 'no `if <compressed flag>: reader = decompresser(reader)` follows this packed reader: compressed objects would be returned raw', where=f'{f.module.relpath}:{n.lineno}')
                else:
                    t = norm(wrap.test)
                    flag_role = field_role(prog, f, wrap.test, wrap) if isinstance(wrap.test, (ast.Name, ast.Attribute)) else None
                    ident_role = None
                    if isinstance(wrap.test, ast.Compare) and any(isinstance(o, (ast.Is, ast.IsNot)) for o in wrap.test.ops):
                        ident_role = field_role(prog, f, wrap.test.left, wrap)
                    if ident_role == 'compressed':
                        chk.bad(R4, f.qualname, f'if {t}', 'the compressed flag of the row is tested by identity (`is True`): rows fetched through the raw SQL scan (the strategy used for large requests) '
                                'carry the flag as the integer 1, for which the identity test is false, so compressed objects are handed out as raw zlib bytes depending on the lookup strategy',
                                where=f'{f.module.relpath}:{wrap.lineno}')
                    elif flag_role == 'compressed':
                        chk.ok(R4, f.qualname, f'{norm(n)[:60]} ; if {t}: wrap', detail='decompresser wraps the reader iff the row is flagged compressed')
                    else:
                        chk.bad(R4, f.qualname, f'if {t}', 'the decompresser is applied under a condition that is not the row\'s compressed flag', where=f'{f.module.relpath}:{wrap.lineno}')
    chk.require(nsites >= 4, f'expected 4 PackedObjectReader construction sites in container.py, found {nsites}')


def run(ctx, host=None):
    chk = host.sub('C01') if host is not None else Check('C01', ctx)
    prog, K, E = ctx.prog, ctx.kinds, ctx.effects
    R1 = chk.rule('C01.R1', 'copy (tee) loops: end only on the empty chunk; each chunk reaches the sink and the hasher exactly once; compressor flushed after the loop', 8)
    R2 = chk.rule('C01.R2', 'returned key = hexdigest of the hasher that saw the written bytes; returned size = accumulated chunk lengths; one key per stream', 5)
    R3 = chk.rule('C01.R3', 'configuration parametricity: hash / compression arguments come from the container configuration, never from a literal', 10)
    R4 = chk.rule('C01.R4', 'writer/reader agreement: loose path terms, codec pairing with the compressed flag, index row schema and positional column order', 12)
    S = Summaries(ctx)

    # ---------------------------------------------------------------- R1
    nloops = 0
    tee_loops = []
    for f in prog.all_functions():
        if isinstance(f.node, ast.Lambda):
            continue
        for loop in [n for n in walk_local(f.node) if isinstance(n, ast.While)]:
            reads = loop_reads(loop)
            if not reads:
                continue
            tee_loops.append(loop)
            for rd_st, var, rd_call in reads:
                nloops += 1
                where = f'{f.module.relpath}:{loop.lineno}'
                cname = f'while-loop reading `{var} = {norm(rd_call)}`'
                # (a) exits
                breaks = []
                for n in ast.walk(loop):
                    if isinstance(n, ast.Break):
                        # innermost loop of this break must be `loop`
                        p = getattr(n, '_parent', None)
                        inner = None
                        guard = None
                        while p is not None and p is not loop:
                            if isinstance(p, (ast.While, ast.For)):
                                inner = p
                            if isinstance(p, ast.If) and guard is None:
                                guard = p
                            p = getattr(p, '_parent', None)
                        if inner is None:
                            breaks.append((n, guard))
                test_true = isinstance(loop.test, ast.Constant) and loop.test.value is True
                if test_true:
                    bad_breaks = [b for b, gd in breaks if gd is None or not is_empty_test(gd.test, var)]
                    if not breaks:
                        chk.bad(R1, f.qualname, cname, 'the copy loop has no exit', where=where)
                    elif bad_breaks:
                        gd = [g_ for b, g_ in breaks if b is bad_breaks[0]][0]
                        chk.bad(R1, f.qualname, cname, f'the copy loop ends on `{norm(gd.test) if gd is not None else "<unconditional>"}` instead of only on the empty chunk: a stream that '
                                'returns a short (non-empty) read before EOF is silently truncated, and the key returned is the digest of a prefix', where=f'{f.module.relpath}:{bad_breaks[0].lineno}')
                    else:
                        chk.ok(R1, f.qualname, cname + ' [exit]', detail='every break is guarded by the emptiness of the chunk just read')
                else:
                    chk.ok(R1, f.qualname, cname + ' [exit]', detail=f'bounded loop `while {norm(loop.test)}`', nontrivial=False)
                # (b) each path through the body after the read: sink / hasher multiplicities
                idx = loop.body.index(rd_st)
                paths = body_paths(loop.body[idx + 1:])
                sinks_any = any(isinstance(c, ast.Call) and isinstance(c.func, ast.Attribute) and c.func.attr == 'write' and uses_in(c, var)
                                for c in ast.walk(loop))
                hash_any = any(isinstance(c, ast.Call) and isinstance(c.func, ast.Attribute) and c.func.attr == 'update' and uses_in(c, var)
                               for c in ast.walk(loop))
                bad = None
                for p in paths:
                    if any(isinstance(x, ast.Break) for x in p):
                        # the EOF path: nothing to write; a hasher.update(b'') is harmless
                        continue
                    nw = nh = 0
                    rebound = False
                    conds = []
                    for x in p:
                        if isinstance(x, tuple):
                            conds.append((norm(x[1]), x[2]))
                            continue
                        if isinstance(x, ast.Assign) and any(isinstance(t, ast.Name) and t.id == var for t in x.targets):
                            rebound = True
                        for c in ast.walk(x):
                            if isinstance(c, ast.Call) and isinstance(c.func, ast.Attribute) and uses_in(c, var):
                                if c.func.attr == 'write':
                                    nw += 1
                                elif c.func.attr == 'update':
                                    nh += 1
                    if rebound:
                        bad = f'`{var}` is rebound between the read and its use'
                    if sinks_any and nw != 1:
                        bad = f'a path through the loop body writes the chunk {nw} time(s) (conditions {conds})'
                    if hash_any and nh > 1:
                        bad = f'a path through the loop body feeds the chunk to the hasher {nh} times'
                    if hash_any and nh == 0:
                        # allowed only under the negative branch of the hash guard
                        guards = [c for c in conds if 'hash' in c[0]]
                        if not (guards and all(not pol for _, pol in guards)):
                            bad = f'a path through the loop body writes the chunk without hashing it (conditions {conds})'
                if bad:
                    chk.bad(R1, f.qualname, cname + ' [tee]', bad + ': bytes stored and bytes hashed can differ', where=where)
                elif sinks_any or hash_any:
                    chk.ok(R1, f.qualname, cname + ' [tee]', detail=f'{len(paths)} path(s): chunk -> sink once' + (', -> hasher once' if hash_any else ''))
                # (b2) the hasher sees the *uncompressed* chunk, the sink the (possibly compressed) one
                for c in ast.walk(loop):
                    if isinstance(c, ast.Call) and isinstance(c.func, ast.Attribute) and c.func.attr == 'update' and c.args and not (isinstance(c.args[0], ast.Name) and c.args[0].id == var) and uses_in(c, var):
                        chk.bad(R1, f.qualname, norm(c), 'the hasher is fed a transformed chunk (must hash exactly the bytes read)', where=f'{f.module.relpath}:{c.lineno}')
                # (c) compressor flush after the loop
                comp = [c for c in ast.walk(loop) if isinstance(c, ast.Call) and isinstance(c.func, ast.Attribute) and c.func.attr == 'compress' and uses_in(c, var)]
                if comp:
                    cobj = norm(comp[0].func.value)
                    blk = getattr(loop, '_parent', None)
                    body = None
                    for attr in ('body', 'orelse', 'finalbody'):
                        b = getattr(blk, attr, None)
                        if isinstance(b, list) and loop in b:
                            body = b
                    after = body[body.index(loop) + 1:] if body else []
                    flushed = any(isinstance(c, ast.Call) and isinstance(c.func, ast.Attribute) and c.func.attr == 'write' and c.args and norm(c.args[0]) == f'{cobj}.flush()'
                                  for st in after for c in ast.walk(st))
                    # guard agreement: compress used under `if X:` -> flush under the same X (or unconditionally in the same branch)
                    if flushed:
                        chk.ok(R1, f.qualname, f'{cobj}.flush() after the loop', detail='compressor tail written')
                    else:
                        chk.bad(R1, f.qualname, f'{cobj}.flush()', 'the compressor is not flushed into the sink after the copy loop: the stored stream is truncated (last bytes missing)', where=where)
    chk.require(nloops >= 8, f'expected at least 8 chunked copy/hash loops, found {nloops}')
    # sink-centric converse: whatever is written into a pack file or a sandbox (future loose) file is a chunk of one of the loops above, or the compressor's
    # flush after such a loop -- never a whole buffer obtained some other way (getvalue(), an unbounded read, a slice of a cached object)
    nw = 0
    from .common import CallGraph, resolved_effect_sites
    seen_w = set()
    for owner, n, e in resolved_effect_sites(ctx, S, CallGraph(ctx, S), {'H_WRITE'}):
        if True:
            if True:
                ar = areas(K, e[1][1]) if isinstance(e[1], tuple) and len(e[1]) > 1 else set()
                if not (ar & {'packs', 'sandbox'}) or id(n) in seen_w:
                    continue
                seen_w.add(id(n))
                f = next((ff for ff in prog.all_functions() if not isinstance(ff.node, ast.Lambda) and any(n is x for x in walk_local(ff.node))), owner)
                nw += 1
                inside = any(any(n is x for x in ast.walk(lp)) for lp in tee_loops)
                arg = n.args[0] if n.args else None
                is_flush = isinstance(arg, ast.Call) and isinstance(arg.func, ast.Attribute) and arg.func.attr == 'flush'
                proxy = f.name == 'write' and isinstance(arg, ast.Name) and arg.id in f.params
                if proxy:
                    chk.ok(R1, f.qualname, norm(n)[:80], detail='write() of a wrapper class forwarding its own argument', nontrivial=False)
                elif inside or is_flush:
                    chk.ok(R1, f.qualname, norm(n)[:80], detail='chunk of a bounded-read copy loop' if inside else 'compressor flush after the loop', nontrivial=False)
                else:
                    chk.bad(R1, f.qualname, norm(n)[:90], 'bytes are written into a pack / sandbox file outside the chunked copy loops: they do not come from a bounded `read(n)` of the input stream at its '
                            'current position (e.g. a whole in-memory buffer taken with getvalue(), which ignores how far the stream was already consumed), so what is stored can differ from what the '
                            'stream delivers and from what the other write paths store for it', where=f'{f.module.relpath}:{n.lineno}')
    chk.require(nw >= 4, f'expected at least 4 writes into pack / sandbox files, found {nw}')

    # ---------------------------------------------------------------- R2
    wd = prog.fn('container:Container._write_data_to_packfile')
    ret = [n for n in walk_local(wd.node) if isinstance(n, ast.Return)][-1]
    ok = isinstance(ret.value, ast.Tuple) and len(ret.value.elts) == 2
    if ok:
        cnt, key = ret.value.elts
        incs = [n for n in walk_local(wd.node) if isinstance(n, ast.AugAssign) and isinstance(n.target, ast.Name) and isinstance(cnt, ast.Name) and n.target.id == cnt.id]
        ok = bool(incs) and all(isinstance(i.op, ast.Add) and norm(i.value).startswith('len(') for i in incs) and 'hexdigest()' in norm(key)
        hname = norm(key).split('.hexdigest')[0]
        ups = [c for c in walk_local(wd.node) if isinstance(c, ast.Call) and isinstance(c.func, ast.Attribute) and c.func.attr == 'update']
        ok = ok and ups and all(norm(u.func.value) == hname for u in ups)
    if ok:
        chk.ok(R2, wd.qualname, norm(ret), detail='(sum of len(chunk), hexdigest of the hasher updated in the loop)')
    else:
        chk.bad(R2, wd.qualname, norm(ret), 'the value returned by _write_data_to_packfile is not (accumulated chunk lengths, hexdigest of the hasher fed in the loop)', where=f'{wd.module.relpath}:{ret.lineno}')
    ch = prog.fn('utils:compute_hash_and_size')
    ret = [n for n in walk_local(ch.node) if isinstance(n, ast.Return)][-1]
    if isinstance(ret.value, ast.Tuple) and 'hexdigest()' in norm(ret.value.elts[0]) and any(isinstance(n, ast.AugAssign) and norm(n.target) == norm(ret.value.elts[1]) and norm(n.value).startswith('len(') for n in walk_local(ch.node)):
        chk.ok(R2, ch.qualname, norm(ret), detail='(hexdigest, accumulated size)')
    else:
        chk.bad(R2, ch.qualname, norm(ret), 'compute_hash_and_size does not return (hexdigest, accumulated size)', where=f'{ch.module.relpath}:{ret.lineno}')
    # loose: key = hexdigest of the wrapper that received the bytes
    ow = prog.fn('utils:ObjectWriter.__exit__')
    hk = [n for n in walk_local(ow.node) if isinstance(n, ast.Assign) and isinstance(n.targets[0], ast.Attribute) and n.targets[0].attr == '_hashkey']
    if len(hk) == 1 and '_filehandle.hexdigest()' in norm(hk[0].value):
        chk.ok(R2, ow.qualname, norm(hk[0]), detail='key of the loose object = digest computed by the wrapper that wrote the sandbox file')
    else:
        chk.bad(R2, ow.qualname, '_hashkey assignment', 'the loose object key is no longer (only) the hexdigest of the writing wrapper', where=f'{ow.module.relpath}:{ow.lineno}')
    hw = prog.fn('utils:HashWriterWrapper.write')
    wr = [c for c in walk_local(hw.node) if isinstance(c, ast.Call) and isinstance(c.func, ast.Attribute) and c.func.attr in ('write', 'update')]
    same = len(wr) == 2 and len({norm(c.args[0]) for c in wr if c.args}) == 1
    if same:
        chk.ok(R2, hw.qualname, ' ; '.join(norm(c) for c in wr), detail='the same bytes object is written and hashed')
    else:
        chk.bad(R2, hw.qualname, 'write/update', 'HashWriterWrapper.write does not pass the same bytes to the stream and to the hash', where=f'{hw.module.relpath}:{hw.lineno}')
    aso = prog.fn('container:Container.add_streamed_object')
    rets = [n for n in walk_local(aso.node) if isinstance(n, ast.Return)]
    rv = rets[-1].value
    src = last_assignment(rv.id, aso, rets[-1].lineno) if isinstance(rv, ast.Name) else rv
    withs = [n for n in walk_local(aso.node) if isinstance(n, ast.With)]
    wname = norm(withs[0].items[0].context_expr) if withs else None
    if src is not None and wname and norm(src) == f'{wname}.get_hashkey()':
        chk.ok(R2, aso.qualname, norm(src), detail='key of the writer whose handle received the bytes')
    else:
        chk.bad(R2, aso.qualname, norm(rets[-1]), 'add_streamed_object does not return the key of the writer it wrote through', where=f'{aso.module.relpath}:{rets[-1].lineno}')
    # a key is handed back only if the new loose file really was published (shared with C09.R1)
    from .c09 import publish_handlers
    publish_handlers(ctx, chk, R2)
    from .c09 import fresh_stream_handover, loose_add_delegation
    loose_add_delegation(ctx, chk, R2)
    fresh_stream_handover(ctx, chk, R2)
    # a key is handed back without writing only for content that is in the index *now*: the known-keys set is rebuilt by every call (C09.R4's rule, claimed here too)
    from .c09 import known_set_accumulation
    known_set_accumulation(ctx, chk, R2)
    # direct path: one key per stream (IterMachine of C09.R4, reported here as C01.R2)
    q = 'container:Container.add_streamed_objects_to_pack'
    fnq = prog.fn(q)
    combos = list(specialisations(fnq, {}, free={'do_fsync', 'do_commit', 'open_streams', 'compress'})) if not ctx.thorough else list(specialisations(fnq, {}))
    bad2 = False
    for consts in combos:
        g = ctx.icfg(q, consts, write_policy(depth=5), key='wp5')
        m = IterMachine(ctx, g, rule='C01.R2')
        viols, st = solve(g, m)
        chk.crash_points += st['pairs']
        chk.specialisations += 1
        for v in viols:
            if 'returned list' in v.msg:
                bad2 = True
                chk.bad(R2, q, 'returned key list', v.msg + f' [flags {consts}]', where=v.node.where, witness=v.witness)
    if not bad2:
        chk.ok(R2, q, f'{len(combos)} flag combinations', detail='exactly one returned key per processed stream, in order', evals=len(combos))
    # direct path / pack_all_loose: the key staged (and returned) for an object is the digest computed by the call that appended its bytes
    # (RangeMachine of C03.R1; only its key-source clause is reported here)
    from .c03 import RangeMachine
    for q2 in ('container:Container.add_streamed_objects_to_pack', 'container:Container.pack_all_loose'):
        fn2 = prog.fn(q2)
        combos2 = [{}] if not q2.endswith('add_streamed_objects_to_pack') else combos
        bad3 = False
        for consts in combos2:
            g = ctx.icfg(q2, consts, write_policy(depth=5), key='wp5')
            m = RangeMachine(ctx, g, 'C01.R2')
            viols, st = solve(g, m)
            chk.crash_points += st['pairs']
            chk.specialisations += 1
            for v in viols:
                if 'key' in v.msg or 'hashkey' in v.msg:
                    bad3 = True
                    chk.bad(R2, q2, v.node.text(120), v.msg + f' [flags {consts}]', where=v.node.where, witness=v.witness)
        if not bad3:
            chk.ok(R2, q2, f'key source, {len(combos2)} flag combination(s)', detail='the staged key is the digest returned by the writer that appended the bytes (hash type = configuration)', evals=len(combos2))

    # ---------------------------------------------------------------- R3
    from .common import no_memoised_configuration
    no_memoised_configuration(ctx, chk, R3)
    nsink = 0

    def classify(expr, f, depth=0):
        """'config' | 'param:<name>' | 'none' | ('literal', v) | 'other'"""
        if isinstance(expr, ast.Constant):
            return 'none' if expr.value is None else ('literal', expr.value)
        if isinstance(expr, ast.IfExp):
            a, b = classify(expr.body, f, depth), classify(expr.orelse, f, depth)
            rs = {a, b} - {'none'}
            return rs.pop() if len(rs) == 1 else ('other' if rs else 'none')
        if isinstance(expr, ast.Attribute) and isinstance(expr.value, ast.Name) and expr.value.id == 'self':
            if expr.attr in ('hash_type', 'compression_algorithm', 'loose_prefix_len', 'pack_size_target'):
                if f.cls is K.container:
                    return 'config'
            if expr.attr.lstrip('_') in ('hash_type', 'loose_prefix_len') and f.cls is not None:
                # attribute of a helper class: bound from the constructor argument of the same name
                return f'ctor:{expr.attr.lstrip("_")}'
        if isinstance(expr, ast.Name):
            if expr.id in f.params:
                return f'param:{expr.id}'
            v = last_assignment(expr.id, f, getattr(expr, 'lineno', 10 ** 9))
            if v is not None and depth < 4:
                return classify(v, f, depth + 1)
        if isinstance(expr, ast.Call) and isinstance(expr.func, ast.Attribute) and expr.func.attr in ('hash_type',):
            return 'config'
        return 'other'

    callers = {}
    for f in prog.all_functions():
        if isinstance(f.node, ast.Lambda):
            continue
        for n, cal, effs in S.calls(f):
            if cal is None or cal.kind not in ('internal', 'class'):
                continue
            tq = cal.target.qualname
            callers.setdefault(tq, []).append((f, n))

    def param_ok(fq, pname, seen=()):
        """Every internal call site of fq binds `pname` to a configuration value (transitively)."""
        if (fq, pname) in seen:
            return True, []
        fi = prog.functions.get(fq) or (prog.find_method(prog.classes[fq], '__init__') if fq in prog.classes else None)
        sites = callers.get(fq, [])
        bad = []
        for f, call in sites:
            if f.qualname == 'container:Container.init_container':
                continue  # the configuration source: it validates the values it is about to store
            tgt = fi
            params = tgt.params if tgt is not None else []
            idx = params.index(pname) if pname in params else None
            val = None
            for kw in call.keywords:
                if kw.arg == pname:
                    val = kw.value
            if val is None and idx is not None and idx < len(call.args):
                val = call.args[idx]
            if val is None:
                d = tgt.defaults.get(pname) if tgt is not None else None
                if d is not None:
                    c = classify(d, tgt)
                    if isinstance(c, tuple):
                        bad.append((f, call, f'default {c[1]!r}'))
                continue
            c = classify(val, f)
            if c == 'config' or c == 'none':
                continue
            if isinstance(c, str) and c.startswith('param:'):
                ok2, b2 = param_ok(f.qualname, c.split(':', 1)[1], seen + ((fq, pname),))
                bad += b2
            elif isinstance(c, str) and c.startswith('ctor:'):
                ok2, b2 = param_ok(f.cls.qualname, c.split(':', 1)[1], seen + ((fq, pname),))
                bad += b2
            elif isinstance(c, tuple):
                if (f.qualname, c[1]) not in CONFIG_EXEMPT:
                    bad.append((f, call, f'literal {c[1]!r}'))
            else:
                bad.append((f, call, f'`{norm(val)}`'))
        return not bad, bad

    for f in prog.all_functions():
        if isinstance(f.node, ast.Lambda):
            continue
        if f.qualname == 'container:Container.init_container':
            continue  # the configuration source itself (validates the values it is about to store)
        for n, cal, effs in S.calls(f):
            if cal is None or cal.kind not in ('internal', 'class') or cal.target.qualname not in CONFIG_SINKS:
                continue
            idx, pname = CONFIG_SINKS[cal.target.qualname]
            val = None
            for kw in n.keywords:
                if kw.arg == pname:
                    val = kw.value
            if val is None and idx < len(n.args):
                val = n.args[idx]
            if val is None:
                continue
            nsink += 1
            c = classify(val, f)
            where = f'{f.module.relpath}:{n.lineno}'
            if c in ('config', 'none'):
                chk.ok(R3, f.qualname, norm(n)[:90], detail='argument read from the container configuration', nontrivial=False)
            elif isinstance(c, tuple):
                if (f.qualname, c[1]) in CONFIG_EXEMPT:
                    chk.ok(R3, f.qualname, norm(n)[:90], detail='tabled exemption: ' + CONFIG_EXEMPT[(f.qualname, c[1])], nontrivial=False)
                else:
                    chk.bad(R3, f.qualname, norm(n)[:120], f'the literal {c[1]!r} is passed where the container\'s configured {pname} is required: the object is hashed/compressed with a '
                            'fixed algorithm instead of the configured one (wrong key / unreadable object under another configuration)', where=where)
            elif isinstance(c, str) and (c.startswith('param:') or c.startswith('ctor:')):
                owner = f.qualname if c.startswith('param:') else f.cls.qualname
                ok3, bad3 = param_ok(owner, c.split(':', 1)[1])
                if ok3:
                    chk.ok(R3, f.qualname, norm(n)[:90], detail=f'`{c.split(":", 1)[1]}` is bound to a configuration value at every call site of {owner}')
                else:
                    bf, bc, why = bad3[0]
                    chk.bad(R3, bf.qualname, norm(bc)[:120], f'{why} flows into {cal.target.qualname}({pname}=...) via {owner}: not the container configuration', where=f'{bf.module.relpath}:{bc.lineno}')
            else:
                chk.bad(R3, f.qualname, norm(n)[:120], f'the {pname} argument `{norm(val)}` is not derived from the container configuration', where=where)
    chk.require(nsink >= 10, f'expected at least 10 hash/compression call sites, found {nsink}')

    # ---------------------------------------------------------------- R4
    # (a) loose path terms
    def shapes(pk, keyvar_names):
        out = set()
        for a in alts(pk):
            if a[0] != 'path':
                continue
            comps = []
            for c in a[2]:
                if isinstance(c, str):
                    comps.append(c)
                else:
                    t = c[1]
                    for kv in keyvar_names:
                        t = t.replace(kv, 'K')
                    t = t.replace('self._loose_prefix_len', 'N').replace('self.loose_prefix_len', 'N').replace(' ', '')
                    comps.append(t)
            out.add(tuple(comps))
        return out
    gl = prog.fn('container:Container._get_loose_path_from_hashkey')
    rk = K.returns(gl, K.top_frame(gl))
    reader_shapes = shapes(rk, [gl.params[0]])
    writer_shapes = set()
    for n, cal, effs in S.calls(ow):
        for e in effs:
            if e[0] in ('RENAME', 'REPLACE') and any(a[0] == 'path' and K.area(a) and K.area(a)[0] == 'loose' for a in alts(e[2])):
                writer_shapes |= shapes(e[2], ['self._hashkey'])
    if reader_shapes and reader_shapes == writer_shapes:
        chk.ok(R4, 'utils:ObjectWriter.__exit__ / container:Container._get_loose_path_from_hashkey', f'{sorted(reader_shapes)}', detail='writer and reader build the same loose path terms')
    else:
        chk.bad(R4, ow.qualname, 'loose destination path', f'the writer stores loose objects under {sorted(writer_shapes)} but the reader looks them up under {sorted(reader_shapes)}', where=f'{ow.module.relpath}:{ow.lineno}')
    ll = prog.fn('container:Container._list_loose')
    concat = [n for n in walk_local(ll.node) if isinstance(n, ast.Assign) and isinstance(n.value, ast.JoinedStr)]
    ok_ll = False
    if concat:
        parts = [v.value.id for v in concat[0].value.values if isinstance(v, ast.FormattedValue) and isinstance(v.value, ast.Name)]
        lits = [v for v in concat[0].value.values if isinstance(v, ast.Constant)]
        fors = [n for n in walk_local(ll.node) if isinstance(n, ast.For)]
        ok_ll = len(parts) == 2 and not lits and len(fors) >= 2
    if ok_ll:
        chk.ok(R4, ll.qualname, norm(concat[0]), detail='listing re-joins prefix + rest (inverse of the path term)')
    else:
        chk.bad(R4, ll.qualname, 'hashkey reconstruction', 'the loose listing no longer reconstructs the key as <folder name><file name>', where=f'{ll.module.relpath}:{ll.lineno}')
    # (b) codec pairing
    cc = prog.fn('container:Container._get_compressobj_instance')
    cd = prog.fn('container:Container._get_stream_decompresser')
    for f in (cc, cd):
        if 'self.compression_algorithm' in norm(f.node):
            chk.ok(R4, f.qualname, 'self.compression_algorithm', detail='codec selected by the configured algorithm', nontrivial=False)
        else:
            chk.bad(R4, f.qualname, 'algorithm argument', 'compressor and decompresser are no longer both derived from the configured algorithm', where=f'{f.module.relpath}:{f.lineno}')
    info = prog.fn('utils:_get_compression_algorithm_info')
    rets = [n for n in walk_local(info.node) if isinstance(n, ast.Return)]
    if rets and isinstance(rets[-1].value, ast.Tuple) and len(rets[-1].value.elts) == 2:
        chk.ok(R4, info.qualname, norm(rets[-1]), detail='compresser and decompresser come from the same table entry', nontrivial=False)
    else:
        chk.bad(R4, info.qualname, 'return', 'compresser/decompresser are no longer returned from one table entry', where=f'{info.module.relpath}:{info.lineno}')
    reader_wrap_sites(ctx, chk, R4)
    # the read funnel only reads: no statement of it writes to, commits or rolls back the index session (rows written with do_commit=False by the same
    # handle must stay pending and readable until the caller commits)
    from .funnel import FUNNEL
    fnl = prog.fn(FUNNEL)
    S4 = Summaries(ctx)
    wr = [(n, e) for n, cal, effs in S4.calls(fnl) for e in effs if e[0] in ('DB_ROLLBACK', 'DB_COMMIT', 'DB_INSERT', 'DB_UPDATE', 'DB_DELETE', 'DB_VACUUM')]
    if wr:
        chk.bad(R4, FUNNEL, norm(wr[0][0])[:80], f'the read path issues {wr[0][1][0]} on the operation session: index rows this handle wrote but has not committed yet are discarded (or published) by a mere read',
                where=f'{fnl.module.relpath}:{wr[0][0].lineno}')
    else:
        chk.ok(R4, FUNNEL, 'index access of the read path', detail='queries only (plus the session refresh of the fallback)', nontrivial=False)
    cont = prog.modules['container']
    # (c) row schema: keys of staged dicts == non-PK columns of Obj
    obj = prog.cls('database:Obj')
    cols = {k for k, v in obj.constants.items() if isinstance(v, ast.Call) and norm(v.func) == 'Column'}
    pk = {k for k, v in obj.constants.items() if isinstance(v, ast.Call) and any(kw.arg == 'primary_key' for kw in v.keywords)}
    chk.require(len(cols) >= 6 and pk, f'database.Obj: columns not recognised ({sorted(cols)})')
    for q, need in (('container:Container.pack_all_loose', cols - pk), ('container:Container.add_streamed_objects_to_pack', cols - pk), ('container:Container.repack_pack', cols)):
        f = prog.fn(q)
        keys = {}
        for n in walk_local(f.node):
            if isinstance(n, ast.Assign):
                for t in (n.targets[0].elts if isinstance(n.targets[0], ast.Tuple) else n.targets):
                    if isinstance(t, ast.Subscript) and isinstance(t.value, ast.Name) and isinstance(t.slice, ast.Constant) and isinstance(t.slice.value, str):
                        keys.setdefault(t.value.id, set()).add(t.slice.value)
        staged = [c.args[0].id for c in walk_local(f.node) if isinstance(c, ast.Call) and isinstance(c.func, ast.Attribute) and c.func.attr == 'append'
                  and c.args and isinstance(c.args[0], ast.Name) and c.args[0].id in keys]
        chk.require(staged, f'{q}: staged row dictionary not found')
        ks = keys[staged[0]]
        if ks == need:
            chk.ok(R4, q, f'{staged[0]} keys {sorted(ks)}', detail='equal to the columns of database.Obj')
        else:
            chk.bad(R4, q, f'{staged[0]} keys', f'the staged index row has keys {sorted(ks)} but the table has columns {sorted(need)} (missing {sorted(need - ks)}, extra {sorted(ks - need)})', where=f'{f.module.relpath}:{f.lineno}')
    # (d) positional column order: ObjQueryResults(res[i]...) vs the SELECT feeding it
    fun = prog.fn('container:Container._get_objects_stream_meta_generator')
    nt = cont.constants.get('ObjQueryResults')
    fields = [e.value for e in nt.args[1].elts] if isinstance(nt, ast.Call) and len(nt.args) > 1 and isinstance(nt.args[1], (ast.List, ast.Tuple)) else []
    if not fields:
        # class ObjQueryResults(NamedTuple): hashkey: str; offset: int; ...   -- the fields are the annotated names, in order
        for st_ in cont.tree.body:
            if isinstance(st_, ast.ClassDef) and st_.name == 'ObjQueryResults' and any(norm(b).split('.')[-1] == 'NamedTuple' for b in st_.bases):
                fields = [x.target.id for x in st_.body if isinstance(x, ast.AnnAssign) and isinstance(x.target, ast.Name)]
    chk.require(fields, 'ObjQueryResults namedtuple not found')
    npos = 0
    for n in walk_local(fun.node):
        if isinstance(n, ast.Call) and norm(n.func) == 'ObjQueryResults':
            idxs = [a.slice.value for a in n.args if isinstance(a, ast.Subscript) and isinstance(a.slice, ast.Constant)]
            loop = n
            while loop is not None and not isinstance(loop, ast.For):
                loop = getattr(loop, '_parent', None)
            # the query feeding the loop
            src = loop.iter
            if isinstance(src, ast.Call) and norm(src.func) == 'detect_where_sorted':
                src = src.args[0]
            if isinstance(src, ast.Name):
                src = last_assignment(src.id, fun, loop.lineno)
            info2 = sql_statement(prog, src.args[0] if isinstance(src, ast.Call) and src.args else None, fun, loop.lineno)
            colnames = None
            if info2 and info2.get('cols'):
                colnames = [c.split('.')[-1] for c in info2['cols']]
            elif info2 and info2.get('text'):
                t = info2['text']
                colnames = [c.strip() for c in t[t.upper().index('SELECT') + 6:t.upper().index('FROM')].split(',')]
            npos += 1
            if colnames and len(idxs) == len(fields) and all(i < len(colnames) and colnames[i] == fld for i, fld in zip(idxs, fields)):
                chk.ok(R4, fun.qualname, f'{norm(n)[:70]} <- SELECT {", ".join(colnames)}', detail='positional indices match the namedtuple fields')
            else:
                chk.bad(R4, fun.qualname, norm(n)[:100], f'positional construction {idxs} -> fields {fields} does not match the selected columns {colnames}: offsets/lengths/flags would be swapped', where=f'{fun.module.relpath}:{n.lineno}')
            # left_key of the sorted scan must index the hashkey column
            if isinstance(loop.iter, ast.Call) and norm(loop.iter.func) == 'detect_where_sorted':
                lk = next((k.value for k in loop.iter.keywords if k.arg == 'left_key'), None)
                if isinstance(lk, ast.Lambda) and isinstance(lk.body, ast.Subscript) and isinstance(lk.body.slice, ast.Constant) and colnames and colnames[lk.body.slice.value] == 'hashkey':
                    chk.ok(R4, fun.qualname, norm(lk), detail='left_key selects the hashkey column', nontrivial=False)
                else:
                    chk.bad(R4, fun.qualname, norm(loop.iter)[:100], 'left_key of the sorted scan does not select the hashkey column of the query', where=f'{fun.module.relpath}:{loop.lineno}')
    chk.require(npos >= 4, f'funnel: expected 4 ObjQueryResults constructions, found {npos}')
    # (e) ObjectMeta fields from like-named columns
    for n in walk_local(fun.node):
        if isinstance(n, ast.Dict) and any(isinstance(k, ast.Constant) and k.value == 'pack_offset' for k in n.keys):
            m = {k.value: norm(v) for k, v in zip(n.keys, n.values) if isinstance(k, ast.Constant)}
            want = {'size': 'size', 'pack_compressed': 'compressed', 'pack_offset': 'offset', 'pack_length': 'length'}
            if m.get('type', '').endswith('PACKED'):
                wrong = [k for k, col in want.items() if not m.get(k, '').endswith('.' + col)]
                if wrong:
                    chk.bad(R4, fun.qualname, f'meta dict at line {n.lineno}', f'metadata field(s) {wrong} are not filled from the like-named index column', where=f'{fun.module.relpath}:{n.lineno}')
                else:
                    chk.ok(R4, fun.qualname, f'meta dict at line {n.lineno}', detail='size/compressed/offset/length from the like-named columns', nontrivial=False)

    # the progress wrapper put around input streams of the direct-to-pack path is a transparent proxy
    cw = prog.cls('utils:CallbackStreamWrapper')
    okw = True
    why = ''
    for mname, nargs in (('read', 1), ('seek', 2), ('tell', 0)):
        mf = cw.methods.get(mname)
        if mf is None:
            okw, why = False, f'{mname}() missing'
            break
        params = [p_ for p_ in mf.params if p_ != 'self'][:nargs]
        rets = [n for n in walk_local(mf.node) if isinstance(n, ast.Return) and n.value is not None]
        if len(rets) != 1:
            okw, why = False, f'{mname}() has {len(rets)} return statements'
            break
        v = rets[0].value
        if isinstance(v, ast.Name):
            asg = [a for a in walk_local(mf.node) if isinstance(a, (ast.Assign, ast.AugAssign, ast.AnnAssign)) and any(isinstance(t, ast.Name) and t.id == v.id for tt in ([a.target] if not isinstance(a, ast.Assign) else a.targets) for t in ast.walk(tt))]
            if len(asg) != 1 or not isinstance(asg[0], ast.Assign):
                okw, why = False, f'the value returned by {mname}() is modified after it was obtained from the wrapped stream'
                break
            v = asg[0].value
        if not (isinstance(v, ast.Call) and isinstance(v.func, ast.Attribute) and v.func.attr == mname and norm(v.func.value) == 'self._stream'
                and [norm(a) for a in v.args] + [norm(k.value) for k in v.keywords] == params):
            okw, why = False, f'{mname}() does not return self._stream.{mname}({", ".join(params)}) unchanged (`{norm(v)[:60]}`)'
            break
    if okw:
        chk.ok(R1, cw.qualname, 'read/seek/tell delegate unchanged', detail='the bytes written to the pack are exactly the bytes of the wrapped input stream')
    else:
        chk.bad(R1, cw.qualname, 'transparent proxy', f'the progress wrapper around input streams alters what the writer sees: {why}', where=f'{cw.module.relpath}:{cw.node.lineno}')

    # ---------------------------------------------------------------- R5 (read side)
    R5 = chk.rule('C01.R5', 'read side: rewinding the decompresser resets all decompression state (chunked re-reads return exactly the stored bytes)', 1)
    from .c07 import rewind_reset
    rewind_reset(ctx, chk, R5)
    from .c07 import decompresser_buffer_discipline
    decompresser_buffer_discipline(ctx, chk, R5)

    # rules of other properties that are necessary conditions of this one too: the round trip needs a consistent index (C03), correct stream classes (C07) and flag/encoding agreement (C10)
    if host is None:
        from ..report import host_modules
        host_modules(chk, ctx, ['C03', 'C07', 'C10', 'C08'])

    return chk.finish(
        explanation=('Static structural rules on every write and read path: tee loops (exit only on the empty chunk; each chunk to the sink and the hasher exactly once on every '
                     'path; compressor flushed), key/size provenance of the returned values, configuration parametricity (every hash/compression argument traced to the container '
                     'configuration through parameters and constructor bindings at all call sites; literals flagged), and writer/reader agreement (loose path terms, codec '
                     'pairing with the compressed flag at every PackedObjectReader site, staged row keys = table columns, positional column order, metadata field mapping).'),
        rule_text='obligation = (rule, function, loop / call site / construction site); non-trivial = path enumeration, provenance or term comparison',
        assumptions=['hashlib, zlib and slicing are value-correct', 'a stream\'s read(n) returns b"" only at EOF'],
        not_decided='value-level arithmetic (chunk boundaries at 64 KiB / 512 KiB, buffer slicing in the decompresser); equality of bytes read and written as values.')
