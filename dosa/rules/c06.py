"""C06 -- publish only after durable; remove only after the replacement is durable (DESIGN 5, C06)."""
from __future__ import annotations

import ast

from ..kinds import alts
from ..loader import norm, walk_local
from ..report import Check
from ..resolve import UNKNOWN, fold
from ..solver import Machine, Violation
from ..solver import run as solve
from .common import write_policy
from .machines import LooseMachine, PackMachine, explore, real_fullfsync, report_violations
from .repack import RepackMachine

FLAG = 'do_fsync'


class FlushSyncMachine(Machine):
    """R0: every normal path of safe_flush_to_disk flushes the handle and then fsyncs its descriptor."""
    rule = 'C06.R0'

    def __init__(self, ctx, fn):
        self.E = ctx.effects
        self.fn = fn
        self.param = fn.params[0]
        self.fullfsync = real_fullfsync()

    def initial(self, g):
        return [('unflushed', 'unsynced')]

    def _is_handle(self, k):
        return any(a[0] == 'param' and a[2] == self.param for a in alts(k))

    def transfer(self, node, st, g):
        f, s = st
        for e in self.E.of(node):
            if e[0] == 'H_FLUSH' and self._is_handle(e[1]):
                f = 'flushed'
            elif e[0] == 'H_WRITE' and self._is_handle(e[1]):
                f, s = 'unflushed', 'unsynced'
            elif (e[0] == 'FSYNC' or (e[0] == 'FCNTL' and self.fullfsync is not None and e[2] == self.fullfsync)) \
                    and e[1][0] == 'fd' and self._is_handle(e[1][1]):
                if f == 'flushed':
                    s = 'synced'
        return [(f, s)]

    def at_exit(self, node, st, g):
        if node is g.exit and st != ('flushed', 'synced'):
            return [Violation(self.rule, node, st,
                              f'a normal path through {self.fn.qualname} returns with the file handle {st[0]}/{st[1]}: '
                              'flush() followed by an fsync primitive on fhandle.fileno() is required on every path')]
        return []


def run(ctx, host=None):
    chk = host.sub('C06') if host is not None else Check('C06', ctx)
    prog, K = ctx.prog, ctx.kinds
    R0 = chk.rule('C06.R0', 'safe_flush_to_disk: flush then fsync(fileno) on every path, per use_fullsync binding and platform model', 4)
    R1 = chk.rule('C06.R1', 'do_fsync defaults to True and is forwarded unchanged', 8)
    R2 = chk.rule('C06.R2', 'loose object: sandbox file flushed+fsynced+closed before rename/replace', 1)
    R3 = chk.rule('C06.R3', 'pack: bytes fsynced before the index commit; loose unlinked only after commit (do_fsync=True)', 3)
    R4 = chk.rule('C06.R4', 'repack: new pack fsynced before the first commit; old pack removed only after it', 1)

    # ---------------------------------------------------------------- R0
    sf = prog.fn('utils:safe_flush_to_disk')
    chk.require(len(sf.params) >= 2, 'safe_flush_to_disk lost its (fhandle, real_path, ...) signature')
    flag = [p for p in sf.params if isinstance(sf.defaults.get(p), ast.Constant) and isinstance(sf.defaults[p].value, bool)]
    bindings = [{}]
    for p in flag:
        bindings = [dict(b, **{p: v}) for b in bindings for v in (False, True)]
    r0_ok = True
    from ..resolve import platform_model
    models = [('this platform', {}), ('macOS model (fcntl.F_FULLFSYNC = 51)', {'fcntl.F_FULLFSYNC': 51})]
    for mname, overrides in models:
        for b in bindings:
            with platform_model(overrides):
                g = ctx.icfg(sf.qualname, b, write_policy(depth=2), key=('wp2', mname))
                m = FlushSyncMachine(ctx, sf)
                viols, st = solve(g, m)
            chk.crash_points += st['pairs']
            chk.specialisations += 1
            if viols:
                if not overrides:
                    r0_ok = False
                for v in viols:
                    chk.bad(R0, sf.qualname, f'safe_flush_to_disk{b} on {mname}', v.msg + f' [binding {b}, {mname}]',
                            where=f'{sf.module.relpath}:{sf.lineno}', witness=v.witness)
            else:
                chk.ok(R0, sf.qualname, f'binding {b} on {mname}', detail='flush -> fsync(fileno) on all normal paths')

    # ---------------------------------------------------------------- R1
    holders = [f for f in prog.all_functions() if FLAG in f.params]
    chk.require(len(holders) >= 5, f'expected at least 5 functions with a `{FLAG}` parameter, found {len(holders)}')
    for f in holders:
        d = f.defaults.get(FLAG)
        v = fold(prog, d, f) if d is not None else UNKNOWN
        if v is True:
            chk.ok(R1, f.qualname, f'{FLAG} default', detail='defaults to True', nontrivial=False)
        else:
            chk.bad(R1, f.qualname, f'{FLAG}: default {norm(d) if d is not None else "<none>"}',
                    f'"default fsync settings" must sync: `{FLAG}` does not default to True', where=f'{f.module.relpath}:{f.lineno}')
    nfw = 0
    for f in prog.all_functions():
        if isinstance(f.node, ast.Lambda):
            continue
        for n in walk_local(f.node):
            if not isinstance(n, ast.Call):
                continue
            cal = K.resolve_call(n, K.top_frame(f))
            if cal.kind != 'internal' or FLAG not in cal.target.params:
                continue
            kw = [k for k in n.keywords if k.arg == FLAG]
            pos = None
            idx = cal.target.params.index(FLAG)
            if idx < len(n.args):
                pos = n.args[idx]
            val = kw[0].value if kw else pos
            nfw += 1
            if val is None:
                chk.ok(R1, f.qualname, norm(n)[:120], detail='callee default (True) applies', nontrivial=False)
            elif isinstance(val, ast.Name) and val.id == FLAG and FLAG in f.params:
                chk.ok(R1, f.qualname, norm(n)[:120], detail='forwarded unchanged')
            else:
                v = fold(prog, val, f)
                if v is True:
                    chk.ok(R1, f.qualname, norm(n)[:120], detail='literal True')
                else:
                    chk.bad(R1, f.qualname, norm(n)[:160],
                            f'`{FLAG}` is not forwarded unchanged to {cal.target.qualname} (got `{norm(val)}`): the caller\'s default '
                            'fsync setting does not reach the write path', where=f'{f.module.relpath}:{n.lineno}')
    chk.require(nfw >= 3, f'expected at least 3 internal call sites passing `{FLAG}`, found {nfw}')

    # ---------------------------------------------------------------- R2
    pol = write_policy(depth=5)
    q = 'container:Container.add_streamed_object'
    holder = {}

    def mk_loose(g, consts):
        m = LooseMachine(ctx, g, require_durable=True, rule_close='C06.R2', rule_durable='C06.R2')
        holder['m'] = m
        return m
    found, m = explore(ctx, chk, q, {}, mk_loose, pol, 'wp5')
    report_violations(chk, q, found)
    chk.require(m.publishes >= 1, 'no rename/replace of a sandbox file into loose/ found in the loose write path')
    if not found:
        chk.ok(R2, q, 'ObjectWriter.__enter__/__exit__ inlined', detail=f'{m.publishes} publish site(s) visited, all after flush+fsync+close')

    # ---------------------------------------------------------------- R3
    entries = [f.qualname for f in holders if f.cls is K.container]
    for q in sorted(entries):
        def mk(g, consts, _q=q):
            ce = ('do_commit' not in prog.fn(_q).params) or consts.get('do_commit') is True
            return PackMachine(ctx, g, require_durable=True, commit_expected=ce, rule_flush='C06.R3', rule_unlink='C06.R3')
        fixed = {FLAG: True}
        if 'do_commit' in prog.fn(q).params and not ctx.thorough:
            fixed['do_commit'] = True
        found, m = explore(ctx, chk, q, fixed, mk, pol, 'wp5')
        derived = None if r0_ok else 'C06.R0 (safe_flush_to_disk does not sync on every path)'
        report_violations(chk, q, found, derived_from=derived)
        chk.require(m is not None and (m.sites.insert_nodes or m.sites.stage_nodes), f'{q}: no INSERT/staging site found')
        if not found:
            chk.ok(R3, q, f'{len(m.sites.stage_nodes)} staging, {len(m.sites.insert_nodes)} insert, {len(m.sites.tracked_unlinks)} tracked-unlink site(s)',
                   detail='every COMMIT of an inserted row happens with the pack bytes flushed and fsynced')

    # ---------------------------------------------------------------- R4
    q = 'container:Container.repack_pack'
    found, m = explore(ctx, chk, q, {}, lambda g, c: RepackMachine(ctx, g, require_durable=True, rule='C06.R4', rule_durable='C06.R4'), pol, 'wp5')
    report_violations(chk, q, found)
    if not found:
        chk.ok(R4, q, 'repack state machine', detail=f'visited: {sorted(m.seen_effects)}')
    chk.require({'commit', 'unlink-old', 'link', 'unlink-tmp'} <= m.seen_effects, f'repack_pack: expected effects not found, saw {sorted(m.seen_effects)}')

    from .common import transaction_premises
    RDB = chk.rule('C06.R5', 'transaction premises: commits are explicit, atomic and durable (explicit BEGIN, no autocommit, only PRAGMA journal_mode=wal)', 1)
    transaction_premises(ctx, chk, RDB)

    # rules of other properties that are necessary conditions of this one too: durability of what was synced assumes packs are append-only (C13)
    if host is None:
        from ..report import host_modules
        host_modules(chk, ctx, ['C13', 'C05'])

    return chk.finish(
        explanation=('Static typestate analysis on inlined control-flow graphs: durability facts (volatile/durable) per file, '
                     'set durable only by flush followed by fsync of that file\'s descriptor; COMMIT / rename / unlink transitions '
                     'require the facts the property demands, on every path and loop iteration, for do_fsync=True.'),
        rule_text=('obligation = (rule, function/entry point, flag specialisation); non-trivial = needed a path query on an ICFG; '
                   'a violation found with free flags is reported only if reproduced under a consistent specialisation'),
        assumptions=['fault model of the property: unsynced file data may vanish; directory operations and committed SQLite '
                     'transactions survive (no directory-fsync obligation)', 'platform constants folded for the platform running the check (Linux: no F_FULLFSYNC)',
                     'SQLite commit durability trusted', 'Python dynamism (monkeypatching) not modelled'],
        not_decided='what the real kernel/storage stack does after a power loss; only the ordering of effects in the code.')
