"""Verdicts, evidence files, known findings, exit codes (DESIGN 3.9, 3.10)."""
from __future__ import annotations

import json
import os
import time

from . import VERIF, AnalysisError, Decided

LEVEL = 'other'


class Finding:
    def __init__(self, pid, rule, function, construct, msg, where=None, witness=None, derived_from=None):
        self.pid = pid
        self.rule = rule
        self.function = function
        self.construct = ' '.join((construct or '').split())
        self.msg = msg
        self.where = where
        self.witness = witness or []
        self.derived_from = derived_from

    @property
    def key(self):
        return (self.rule, self.function, self.construct)

    def to_json(self):
        return {'property': self.pid, 'rule': self.rule, 'function': self.function, 'construct': self.construct,
                'message': self.msg, 'where': self.where, 'witness': self.witness, 'derived_from': self.derived_from}


class Check:
    """Accumulates obligations / findings for one property run."""

    def __init__(self, pid, ctx):
        self.pid = pid
        self.ctx = ctx
        self.t0 = time.time()
        self.obligations = 0
        self.discharged = 0
        self.evaluations = 0
        self.nontrivial = set()
        self.findings = []
        self.samples = []
        self.rules = {}  # rule id -> dict(description, instances, min)
        self.notes = []
        self.extra = {}
        self.crash_points = 0
        self.specialisations = 0
        self.hosted = []

    # -------------------------------------------------------------- bookkeeping
    def sub(self, pid):
        return SubCheck(self, pid)

    def rule(self, rid, description, minimum=1):
        self.rules[rid] = {'description': description, 'instances': 0, 'min': minimum, 'violations': 0}
        return rid

    def ok(self, rule, function, construct, detail=None, nontrivial=True, evals=1, sample=False):
        """One obligation instance discharged."""
        self.obligations += 1
        self.discharged += 1
        self.evaluations += evals
        if rule in self.rules:
            self.rules[rule]['instances'] += 1
        if nontrivial:
            self.nontrivial.add((rule, function, ' '.join(str(construct).split())))
        if sample or len([s for s in self.samples if s.get('rule') == rule]) < 2:
            self.samples.append({'rule': rule, 'function': function, 'construct': ' '.join(str(construct).split())[:200],
                                 'verdict': 'holds', 'detail': detail})

    def bad(self, rule, function, construct, msg, where=None, witness=None, derived_from=None, evals=1):
        self.obligations += 1
        self.evaluations += evals
        if rule in self.rules:
            self.rules[rule]['instances'] += 1
            self.rules[rule]['violations'] += 1
        f = Finding(self.pid, rule, function, str(construct), msg, where, witness, derived_from)
        for g in self.findings:
            if g.key == f.key:
                return g
        self.findings.append(f)
        self.nontrivial.add((rule, function, f.construct))
        self.samples.append({'rule': rule, 'function': function, 'construct': f.construct[:200], 'verdict': 'VIOLATED',
                             'detail': msg, 'where': where, 'witness': (witness or [])[:12]})
        return f

    def count(self, rule, n=1):
        if rule in self.rules:
            self.rules[rule]['instances'] += n

    def require(self, cond, msg):
        if not cond:
            if self.findings:
                self.note(f'analysis stopped early: {msg}')
                raise Decided(self, f'{self.pid}: {msg}')
            raise AnalysisError(f'{self.pid}: {msg}')

    def note(self, s):
        self.notes.append(s)

    # -------------------------------------------------------------- finishing
    def finish(self, explanation, rule_text, assumptions, not_decided):
        """Check minimum instance counts, match known findings, write evidence, print verdict; returns exit code."""
        for rid, r in self.rules.items():
            if r['instances'] < r['min'] and not self.findings:
                raise AnalysisError(
                    f'{self.pid}/{rid}: found {r["instances"]} obligation source(s), expected at least {r["min"]} '
                    f'({r["description"]}) -- the anchor constructs vanished or are no longer recognised')
        known = load_known()
        open_known = [k for k in known.get('open', []) if k.get('property') == self.pid]
        new, listed = [], []
        for f in self.findings:
            hit = None
            for k in open_known:
                if k.get('rule') == f.rule and k.get('function') == f.function and ' '.join(k.get('construct', '').split()) == f.construct:
                    hit = k
            (listed if hit else new).append((f, hit))
        outdir = os.path.join(os.environ.get('DOSA_OUT', os.path.join(VERIF, 'out')), self.pid)
        lines = []
        for f, k in listed:
            lines.append(f'KNOWN-FINDING: property={self.pid} {k.get("what", f.msg)}')
        replay_paths = []
        if new:
            os.makedirs(outdir, exist_ok=True)
        for i, (f, _) in enumerate(new):
            path = os.path.join(outdir, f'{f.rule}-{i}.json')
            with open(path, 'w') as fh:
                json.dump(f.to_json(), fh, indent=1)
            replay_paths.append(path)
            lines.append('')
            lines.append(f'--- {self.pid} rule {f.rule} violated in {f.function}')
            lines.append(f'    at {f.where}: {f.construct[:160]}')
            lines.append(f'    {f.msg}')
            if f.derived_from:
                lines.append(f'    (derived from {f.derived_from})')
            for w in f.witness[:40]:
                lines.append(f'      | {w}')
            lines.append(f'VIOLATION property={self.pid} replay={path}')
        wall = time.time() - self.t0
        ctx = self.ctx
        cov = {
            'explanation': explanation + ' NOT DECIDED: ' + not_decided,
            'obligations': self.obligations,
            'discharged': self.discharged,
            'evaluations': max(self.evaluations, self.obligations),
            'distinct_nontrivial': len(self.nontrivial),
            'rule': rule_text,
            'samples': self.samples[:14],
            'rules': {rid: {'description': r['description'], 'instances': r['instances'], 'minimum': r['min'],
                            'violations': r['violations']} for rid, r in self.rules.items()},
            'checker_cmd': f'./check {self.pid} --tier {ctx.tier}',
            'trusted_base': ['CPython ast module', 'dosa engine (this directory)'] ,
            'modules': ctx.stats['modules'], 'functions': ctx.stats['functions'], 'lambdas': ctx.stats['lambdas'],
            'source_lines': ctx.stats['lines'],
            'cfg_nodes': ctx.counters['cfg_nodes'], 'call_sites': ctx.counters['call_sites'],
            'resolved_call_sites': ctx.counters['resolved'], 'icfgs_built': ctx.counters['icfgs'],
            'crash_points': self.crash_points, 'specialisations': self.specialisations,
            'analysis_digest': ctx.prog.digest,
            'known_findings_listed': len(listed),
            'exhaustive': False,
            'notes': self.notes[:20],
        }
        cov.update(self.extra)
        if self.hosted:
            cov['hosted_rule_modules'] = self.hosted
        if ctx.thorough and not os.environ.get('DOSA_NO_SELFTEST'):
            # checker self-test (DESIGN 3.11): seeded mutants must be reported, benign twins must stay silent.  Informational:
            # it documents the rules' discriminating power and never changes the verdict about /repo.
            try:
                from .selftest.harness import run_all, summarise
                vs, res = run_all(self.pid)
                sm = summarise(vs, res)
                cov.update({k: sm[k] for k in ('mutants_total', 'mutants_killed', 'twins_total', 'twins_silent')})
                cov['variants_skipped'] = sm['skipped']
                cov['selftest_problems'] = [list(map(str, p)) for p in sm['problems']][:20]
                cov['selftest_samples'] = [f'{r[0]}: {r[1]} {r[2]}' for r in res][:12]
                print(f'[{self.pid}] SELFTEST mutants {sm["mutants_killed"]}/{sm["mutants_total"]} killed, twins '
                      f'{sm["twins_silent"]}/{sm["twins_total"]} silent, {sm["skipped"]} skipped')
                for pr in sm['problems']:
                    print(f'[{self.pid}] SELFTEST-NOTE {pr}')
            except Exception as exc:  # the self-test must never break the check
                cov['selftest_error'] = repr(exc)
            wall = time.time() - self.t0
        ev = {
            'property_id': self.pid,
            'tier': ctx.tier,
            'seed': ctx.seed,
            'level': LEVEL,
            'coverage': cov,
            'assumptions': assumptions,
            'wall_s': round(wall, 3),
            'violations': len(new),
        }
        if not os.environ.get('DOSA_NO_EVIDENCE'):
            os.makedirs(os.path.join(VERIF, 'evidence'), exist_ok=True)
            with open(os.path.join(VERIF, 'evidence', f'{self.pid}.json'), 'w') as fh:
                json.dump(ev, fh, indent=1, default=str)
        print(f'[{self.pid}] tier={ctx.tier} modules={ctx.stats["modules"]} functions={ctx.stats["functions"]} '
              f'icfgs={ctx.counters["icfgs"]} cfg_nodes={ctx.counters["cfg_nodes"]} call_sites={ctx.counters["call_sites"]} '
              f'(resolved {ctx.counters["resolved"]}) crash_points={self.crash_points} specialisations={self.specialisations}')
        for rid, r in self.rules.items():
            print(f'[{self.pid}]   {rid}: {r["instances"]} instance(s) (min {r["min"]}), {r["violations"]} violated -- {r["description"]}')
        print(f'[{self.pid}] obligations={self.obligations} discharged={self.discharged} '
              f'distinct_nontrivial={len(self.nontrivial)} wall={wall:.2f}s')
        for ln in lines:
            print(ln)
        if new:
            return 1
        print(f'[{self.pid}] OK')
        return 0


class SubCheck:
    """Runs another property's rule module on behalf of a host property: a rule of Cyy that is also a necessary condition of Cxx is
    evaluated by the very same code and reported under the id `Cxx+Cyy.Rn` in the host's verdict and evidence."""

    def __init__(self, host, pid):
        object.__setattr__(self, 'host', host)
        object.__setattr__(self, 'sub_pid', pid)
        object.__setattr__(self, 'pid', host.pid)
        object.__setattr__(self, 'ctx', host.ctx)

    def _map(self, rid):
        rid = str(rid)
        return rid if rid.startswith(self.host.pid + '+') else f'{self.host.pid}+{rid}'

    # forwarded state
    def __getattr__(self, name):
        return getattr(self.host, name)

    def __setattr__(self, name, value):
        setattr(self.host, name, value)

    def rule(self, rid, description, minimum=1):
        return self.host.rule(self._map(rid), f'[{self.sub_pid}] ' + description, minimum)

    def ok(self, rule, *a, **kw):
        return self.host.ok(self._map(rule), *a, **kw)

    def bad(self, rule, *a, **kw):
        return self.host.bad(self._map(rule), *a, **kw)

    def count(self, rule, n=1):
        return self.host.count(self._map(rule), n)

    def require(self, cond, msg):
        return self.host.require(cond, f'(hosted {self.sub_pid}) {msg}')

    def note(self, s):
        return self.host.note(f'[{self.sub_pid}] {s}')

    def sub(self, pid):
        return SubCheck(self.host, pid)

    def finish(self, explanation, rule_text, assumptions, not_decided):
        self.host.hosted.append({'property': self.sub_pid, 'explanation': explanation[:400], 'assumptions': assumptions})
        return 0


def host_modules(chk, ctx, pids):
    """Evaluate the rule modules of `pids` inside the host check (their rules are necessary conditions of the host property too)."""
    import importlib
    if os.environ.get('DOSA_NO_HOSTING'):
        return  # tools/automut.py: every rule module is evaluated once, on its own, in one process (`./check multi`)
    for pid in pids:
        mod = importlib.import_module(f'dosa.rules.{pid.lower()}')
        mod.run(ctx, host=chk)


def load_known():
    p = os.path.join(VERIF, 'known_findings.json')
    try:
        with open(p) as fh:
            return json.load(fh)
    except FileNotFoundError:
        return {'open': [], 'fixed': []}
