"""CLI: ./check <Cnn> [--tier quick|thorough] | ./check --selfcheck | ./check explain <replay.json> | ./check all"""
from __future__ import annotations

import importlib
import json
import os
import sys
import time
import traceback

from . import REPO, VERIF, AnalysisError, Decided
from .cfg import Builder, Policy
from .effects import Effects
from .kinds import Kinds
from .loader import Program

PROPS = [f'C{i:02d}' for i in range(1, 19)]


class Ctx:
    def __init__(self, tier='quick', seed=0, repo=None):
        self.tier = tier
        self.seed = seed
        self.prog = Program(repo)
        self.kinds = Kinds(self.prog)
        self.effects = Effects(self.prog, self.kinds)
        self.stats = self.prog.stats()
        self.counters = {'cfg_nodes': 0, 'call_sites': 0, 'resolved': 0, 'icfgs': 0}
        self._icfg_cache = {}

    @property
    def thorough(self):
        return self.tier == 'thorough'

    def icfg(self, qualname, consts=None, policy=None, key=None):
        policy = policy or Policy()
        ck = (qualname, tuple(sorted((consts or {}).items())), key or id(policy))
        if ck in self._icfg_cache:
            return self._icfg_cache[ck]
        fn = self.prog.fn(qualname)
        g = Builder(self.prog, self.kinds, policy).build(fn, consts=consts)
        st = g.stats()
        self.counters['icfgs'] += 1
        self.counters['cfg_nodes'] += st['nodes']
        self.counters['call_sites'] += st['call_sites']
        self.counters['resolved'] += st['resolved']
        self._icfg_cache[ck] = g
        return g


def run_property(pid, tier, seed):
    ctx = Ctx(tier, seed)
    mod = importlib.import_module(f'dosa.rules.{pid.lower()}')
    return mod.run(ctx)


def main(argv=None):
    argv = list(sys.argv[1:] if argv is None else argv)
    tier = os.environ.get('VERIF_TIER', 'quick')
    try:
        seed = int(os.environ.get('VERIF_SEED', '0'))
    except ValueError:
        seed = 0
    if '--tier' in argv:
        i = argv.index('--tier')
        tier = argv[i + 1]
        del argv[i:i + 2]
    if tier not in ('quick', 'thorough'):
        tier = 'quick'
    if not argv:
        print(__doc__)
        return 2
    cmd = argv[0]
    try:
        if cmd == '--selfcheck':
            t0 = time.time()
            ctx = Ctx('quick', 0)
            print('dosa selfcheck: repo', REPO, ctx.stats, 'digest', ctx.prog.digest[:16])
            g = ctx.icfg('container:Container.pack_all_loose', {'do_fsync': True})
            print('dosa selfcheck: ICFG pack_all_loose', g.stats(), f'{time.time() - t0:.2f}s')
            return 0
        if cmd == 'explain':
            with open(argv[1]) as fh:
                rep = json.load(fh)
            pid = rep['property']
            print(f'replaying rule {rep["rule"]} of {pid} in {rep["function"]} on the current tree')
            print(json.dumps(rep, indent=1)[:3000])
            rc = run_property(pid, tier, seed)
            return rc
        if cmd == 'all':
            rc = 0
            for pid in PROPS:
                try:
                    r = run_property(pid, tier, seed)
                except ModuleNotFoundError:
                    print(f'[{pid}] no check registered')
                    continue
                rc = max(rc, r)
            return rc
        if cmd == 'multi':
            # tool mode (not registered in MANIFEST): all rule modules once, one shared program model, no hosting
            os.environ['DOSA_NO_HOSTING'] = '1'
            ctx = Ctx(tier, seed)
            worst = 0
            for pid in (argv[1:] or PROPS):
                mod = importlib.import_module(f'dosa.rules.{pid.lower()}')
                try:
                    r = mod.run(ctx)
                except Decided as exc:
                    r = exc.chk.finish(explanation='partial', rule_text='', assumptions=[], not_decided='')
                except AnalysisError as exc:
                    print(f'ANALYSIS-ERROR: {pid}: {exc}')
                    r = 2
                except Exception:
                    print(f'ANALYSIS-ERROR: {pid}: internal error in the analyser')
                    traceback.print_exc()
                    r = 2
                print(f'[multi] {pid} rc={r}')
                worst = max(worst, r)
            return worst
        pid = cmd.upper()
        if pid not in PROPS:
            print('unknown property', pid)
            return 2
        return run_property(pid, tier, seed)
    except Decided as exc:
        print(f'NOTE: analysis stopped early ({exc}); reporting the violation(s) found so far')
        return exc.chk.finish(explanation='Partial run: a decisive violation was found, then an anchor construct could not be recognised any more.',
                              rule_text='see DESIGN.md', assumptions=[], not_decided='rules after the point where the analysis stopped')
    except AnalysisError as exc:
        print(f'ANALYSIS-ERROR: {exc}')
        return 2
    except Exception:  # never let a traceback look like a violation (exit 1)
        print('ANALYSIS-ERROR: internal error in the analyser')
        traceback.print_exc()
        return 2


if __name__ == '__main__':
    sys.exit(main())
